#!/usr/bin/env python3
"""tools/py2est.py --repo R --out DIR

Translates the STATEFUL SHELL of `class FactoredInference` (`src/mbi/inference.py`) and `Factor.active`
(`src/mbi/factor.py`) into Lean definitions (`DIR/EstimateG.lean`, namespace `PGM.EstG`).  The estimator object is the
record `Est` = configuration `Cfg` (the attributes only `__init__` assigns) + the two attributes `_setup` assigns
(`model`, `groups`; absent until the first call: `Option`); every method is a function `Est → args → Est [× result]`.
WHICH attributes a call reads is therefore read off the source.  `PGM/Properties/C13G.lean` proves the generated step
function equal to the state machine `PGM/Model/Engine.lean` (C13), `PGM/Properties/C10G.lean` ties the zero handling
to the definitions of `Proofs/ZerosSem.lean` (C10).  The blocks already covered by other translators are referenced,
not re-translated: the grouping loop of `_setup` and the solver bodies (`tools/py2inf.py`, run here as a library so that
a source it cannot translate stops this translator too; its parameter lists are read from its output), the
"estimate the total" block (`tools/py2total.py`; its value is the parameter `estTotal`).

Generated definitions
  active             `Factor.active` (factor.py): `np.array(cells).T`, `np.zeros(shape)`, advanced-index store, `Factor(..)`
  init / initDefault `__init__`, numpy backend; `initDefault` applies the defaults of the signature
  fixMeasurements    `fix_measurements` (data path) and `fixMeasurementsOk` (the conjunction of its assertions)
  setup              `_setup`: given vs estimated total, clique list, `GraphicalModel(..)`, zero potentials, `combine` with the
                     structural zeros, the warm-start branch, `self.model = model`, `self.groups` (= `InfG.setupGroups`)
  estimate           `estimate`: options dict, callback plumbing, engine dispatch (the three solver methods are parameters),
                     `return self.model`;  `estimateCall`: the same under Python's default-argument rule for `options={}`
                     (one dict object per function, shared by all calls that omit the argument)
  mirrorDescentShell / dualAveragingShell / interiorGradientShell
                     a solver method = `self._setup(..)`; `model = self.model`; the body translated by py2inf (in its
                     variants), whose products are written back into `self.model`

Translatable subset (statement level, state-passing style; every Python variable is a `let`, re-bound when re-assigned)
  x = e; self.X = e; model.X = e; x += <list>; d[k] = e on a dict being built / on `options`; v.combine(w) and
  ans.append(t) on a receiver created in the same function (in-place mutation of anything else stops the translator);
  `for x in xs` / `for Q, y, noise, proj in measurements` -> `List.foldl` over the variables assigned in the body;
  `if c: x = e [elif ..]` -> `let x := if c then .. else x` (one variable existing before the `if` may be re-bound per
  `if`; names FIRST assigned inside a branch are local to it and must not be read after the `if`; tests may compare
  `len(..)` / naturals with `>`, `>=`, `<`, `<=`, `==`); tests decided by the variant or by
  typing (`backend == 'torch'`, `self.structural_zeros is not None`) select the branch;
  `if A and hasattr(self, 'model'): S` -> `match A, self.model with | true, some self_model => S | _, _ => skip`
  (`self.model` can only be read under such a guard, after `_setup`, or returned as an `Option`);
  `assert`s of `fix_measurements` -> conjuncts of `fixMeasurementsOk`; other asserts / docstrings / `print` are skipped;
  `model = GraphicalModel(d, cliques, total, elimination_order=eo)` binds `model.domain := d`, `model.total := total`
  (re-read from `GraphicalModel.__init__`), `model.cliques := gmCliques d cliques eo` (contract: the maximal cliques of
  the junction tree), no `potentials` / `marginals` attribute.
Contracts (parameters): `negInf` = `-np.inf`; `gmCliques`; `estTotal`; `bp`/`mle` = `model.belief_propagation`/`model.mle`
  of a model object; `topEigs`; `logger` = `callbacks.Logger(self)`; `cbVal` = a callback as a dict value; `md`/`rda`/`ig`.
Facts about other code are re-read from source on every run (`check_sources`).  Anything else: exit 1 with file:line.
"""
import argparse, ast, os, re, sys

sys.path.insert(0, os.path.dirname(os.path.abspath(__file__)))
import py2inf, py2total  # noqa: E402


class Untranslatable(Exception):
    pass


CUR = {'file': 'inference.py'}


def fail(node, why):
    line = getattr(node, 'lineno', '?') if isinstance(node, ast.AST) else '?'
    text = (ast.unparse(node) if isinstance(node, ast.AST) else str(node)).split('\n')[0]
    raise Untranslatable(f'{CUR["file"]}:{line} {why}: {text[:160]}')


GROUPS_TY = 'List (JT.Clique × List (Loss.Meas α))'
SOLVER_TY = 'Est α → List (Loss.Meas α) → Option α → Opts V → Est α'
LEANTY = {'dom': 'Dom', 'scalar': 'α', 'optscalar': 'Option α', 'nat': 'Nat', 'bool': 'Bool', 'str': 'String',
          'clique': 'JT.Clique', 'cliques': 'List JT.Clique', 'cv': 'CliqueVec α', 'cells': 'List (List Nat)',
          'idx': 'List (List Nat)', 'ndarr': 'NdArr α', 'factor': 'Factor α', 'meas': 'Loss.Meas α',
          'measlist': 'List (Loss.Meas α)', 'rawlist': 'List (RawMeas α)', 'rawproj': 'RawProj', 'mat': 'List (List α)',
          'optmat': 'Option (List (List α))', 'vec': 'List α', 'zspec': 'List (JT.Clique × List (List Nat))',
          'opts': 'Opts V', 'optcb': 'Option Cb', 'val': 'V', 'metric': 'Metric', 'optorder': 'Option (List Attr)',
          'est': 'Est α', 'optgm': 'Option (GM α)', 'gmval': 'GM α', 'shape': 'List Nat'}
CFG = [('domain', 'dom'), ('metric', 'metric'), ('log', 'bool'), ('iters', 'nat'), ('warm_start', 'bool'),
       ('elim_order', 'optorder'), ('structural_zeros', 'cv')]
CFGD = dict(CFG)
GMFIELDS = ['domain', 'inCliques', 'elim', 'cliques', 'total', 'potentials', 'marginals']
PARAMS = [('negInf', 'α'), ('gmCliques', 'Dom → List JT.Clique → Option (List Attr) → List JT.Clique'),
          ('estTotal', 'List (Loss.Meas α) → α'), ('bp', 'GM α → CliqueVec α → CliqueVec α'),
          ('mle', 'GM α → CliqueVec α → CliqueVec α'), ('topEigs', 'List (Loss.Meas α) → List α'),
          ('logger', 'V'), ('cbVal', 'Option Cb → V'), ('md', SOLVER_TY), ('rda', SOLVER_TY), ('ig', SOLVER_TY)]
MEAS_FIELDS = ['Q', 'y', 'noise', 'proj']


class V:
    def __init__(self, t, ty, fresh=False, origin=None):
        self.t, self.ty, self.fresh, self.origin = t, ty, fresh, origin


def ind(lines, k=2):
    return [' ' * k + l for l in lines]


def nodoc(ss):
    return [s for s in ss if not (isinstance(s, ast.Expr) and isinstance(s.value, ast.Constant))]


def place(n):
    """`x`, `self.X`, `model.X` as an environment key"""
    if isinstance(n, ast.Name):
        return n.id
    if isinstance(n, ast.Attribute) and isinstance(n.value, ast.Name) and n.value.id in ('self', 'model'):
        return f'{n.value.id}.{n.attr}'
    return None


def lname(p):
    return p.replace('.', '_')


class Tr:
    def __init__(self, where):
        self.where = where          # 'active' | 'init' | 'fix' | 'setup' | 'estimate'
        self.used = []              # contract parameters used
        self.pre = []               # conjuncts of the assertion predicate (fix_measurements)
        self.model_present = False  # `self.model` is known to exist (after `_setup`)

    def use(self, p):
        if p not in self.used:
            self.used.append(p)
        return p

    # ------------------------------------------------------------------ expressions
    def expr(self, n, env):
        k = place(n)
        if k is not None and k in env:
            return env[k]
        if isinstance(n, ast.Name):
            fail(n, f'unknown name `{n.id}`')
        if isinstance(n, ast.Constant):
            if isinstance(n.value, bool):
                return V('true' if n.value else 'false', 'bool')
            if isinstance(n.value, str):
                return V(f'"{n.value}"', 'str')
            if n.value is None:
                return V('none', 'none')
            if type(n.value) is int and n.value >= 0:
                return V(str(n.value), 'nat')
            fail(n, 'constant outside the subset')
        if isinstance(n, ast.Attribute):
            return self.attribute(n, env)
        if isinstance(n, ast.Call):
            return self.call(n, env)
        if isinstance(n, ast.Subscript):
            return self.subscript(n, env)
        if isinstance(n, ast.UnaryOp) and isinstance(n.op, ast.USub) and ast.unparse(n.operand) == 'np.inf':
            return V(self.use('negInf'), 'scalar')
        if isinstance(n, ast.Tuple):
            return self.tuple_(n, env)
        if isinstance(n, ast.ListComp):
            return self.listcomp(n, env)
        if isinstance(n, ast.List) and not n.elts:
            return V('[]', 'emptylist', fresh=True)
        if isinstance(n, (ast.Compare, ast.BoolOp)) or (isinstance(n, ast.UnaryOp) and isinstance(n.op, ast.Not)):
            return self.boolean(n, env)
        fail(n, 'expression outside the subset')

    def attribute(self, n, env):
        k = place(n)
        if k and k.startswith('self.'):
            a = n.attr
            if a in CFGD and self.where != 'init':
                return V(f'self.cfg.{a}', CFGD[a], origin=k)
            if a == 'model':
                if 'self.model!' in env:          # under a hasattr guard / after _setup
                    return env['self.model!']
                return V('self.model', 'optgm')
            fail(n, f'attribute `self.{a}` is not an attribute this method may read here (known: {[c for c, _ in CFG]}, model, groups)')
        if k and k.startswith('model.'):
            fail(n, f'`{k}` is read before it is assigned (a fresh GraphicalModel has no such attribute)')
        b = self.expr(n.value, env) if not (isinstance(n.value, ast.Name) and n.value.id in ('np', 'sparse', 'callbacks')) else None
        if b is not None:
            if b.ty == 'dom' and n.attr == 'shape':
                return V(f'(Dom.shape {b.t})', 'shape')
            if b.ty == 'gmval' and n.attr in GMFIELDS:
                ty = {'domain': 'dom', 'cliques': 'cliques', 'inCliques': 'cliques', 'total': 'scalar', 'potentials': 'cv', 'elim': 'optorder'}.get(n.attr)
                if ty is None:
                    fail(n, 'attribute of a model outside the subset')
                return V(f'{b.t}.{n.attr}', ty)
            if b.ty == 'vec' and n.attr == 'size':
                return V(f'(List.length {b.t})', 'nat')
        fail(n, 'attribute outside the subset')

    def subscript(self, n, env):
        b = self.expr(n.value, env) if not isinstance(n.value, ast.Attribute) or place(n.value) else None
        if b is not None and b.ty == 'zspec':
            i = self.expr(n.slice, env)
            if i.ty != 'clique':
                fail(n, 'key of the zero specification is not a clique')
            return V(f'(dictGet {b.t} {i.t})', 'cells')
        if b is not None and b.ty == 'meas' and isinstance(n.slice, ast.Constant) and n.slice.value in (0, 1, 2, 3):
            f = MEAS_FIELDS[n.slice.value]
            return V(f'{b.t}.{f}', {'Q': 'mat', 'y': 'vec', 'noise': 'scalar', 'proj': 'clique'}[f])
        fail(n, 'subscript outside the subset')

    def tuple_(self, n, env):
        if len(n.elts) == 1:
            p = self.expr(n.elts[0], env)
            if p.ty != 'rawproj':
                fail(n, '1-tuple of something that is not a projection')
            return V(f'(RawProj.single {p.t})', 'rawproj')
        if len(n.elts) == 4:
            q, y, s, p = [self.expr(e, env) for e in n.elts]
            if (q.ty, y.ty, s.ty) != ('mat', 'vec', 'scalar') or p.ty not in ('rawproj', 'clique'):
                fail(n, f'a measurement tuple must be (matrix, vector, scalar, projection), got {(q.ty, y.ty, s.ty, p.ty)}')
            pt = f'(RawProj.attrs {p.t})' if p.ty == 'rawproj' else p.t
            return V(f'(Loss.Meas.mk {q.t} {y.t} {s.t} {pt})', 'meas')
        fail(n, 'tuple outside the subset')

    def listcomp(self, n, env):
        if len(n.generators) != 1 or n.generators[0].ifs or not isinstance(n.generators[0].target, ast.Name):
            fail(n, 'list comprehension outside the subset')
        g = n.generators[0]
        xs = self.expr(g.iter, env)
        if xs.ty != 'measlist':
            fail(n, 'comprehension over something that is not the measurement list')
        e2 = dict(env)
        e2[g.target.id] = V(g.target.id, 'meas')
        b = self.expr(n.elt, e2)
        if b.ty != 'clique':
            fail(n, 'only a comprehension collecting projections is in the subset')
        return V(f'(List.map (fun ({g.target.id} : Loss.Meas α) => {b.t}) {xs.t})', 'cliques', fresh=True)

    def call(self, n, env):
        f = ast.unparse(n.func)
        args = n.args
        if n.keywords and f != 'GraphicalModel':
            fail(n, 'keyword arguments outside the subset')

        def a(i, *tys):
            v = self.expr(args[i], env)
            if tys and v.ty not in tys:
                fail(args[i], f'expected {tys}, got {v.ty}')
            return v
        if isinstance(n.func, ast.Attribute) and n.func.attr in ('project', 'size') and len(args) == 1:
            d = self.expr(n.func.value, env)
            if d.ty == 'dom':
                c = a(0, 'clique', 'rawproj')
                ct = f'(RawProj.attrs {c.t})' if c.ty == 'rawproj' else c.t
                if n.func.attr == 'project':
                    return V(f'(Dom.project {d.t} {ct})', 'dom')
                return V(f'(Dom.sizeOf {d.t} {ct})', 'nat')
        if f == 'self.Factor.active' and len(args) == 2:
            if env.get('self.Factor') is None or env['self.Factor'].t != 'mbi.Factor':
                fail(n, '`self.Factor` is not bound to `mbi.Factor` here')
            return V(f'(active {self.use("negInf")} {a(0, "dom").t} {a(1, "cells").t})', 'factor', fresh=True)
        if f == 'CliqueVector' and len(args) == 1 and isinstance(args[0], ast.Dict) and not args[0].keys:
            return V('([] : CliqueVec α)', 'cv', fresh=True)
        if f == 'CliqueVector.zeros' and len(args) == 2:
            return V(f'(CliqueVec.zerosV {a(0, "dom").t} {a(1, "cliques").t})', 'cv', fresh=True)
        if f == 'list' and len(args) == 1 and isinstance(args[0], ast.Call) and isinstance(args[0].func, ast.Attribute) \
                and args[0].func.attr == 'keys' and not args[0].args:
            d = self.expr(args[0].func.value, env)
            if d.ty != 'cv':
                fail(n, '`.keys()` of something that is not a CliqueVector')
            return V(f'(List.map Prod.fst {d.t})', 'cliques', fresh=True)
        if f == 'tuple' and len(args) == 1:
            if ast.unparse(args[0]).startswith('np.array(') and ast.unparse(args[0]).endswith(').T'):
                inner = args[0].value
                if len(inner.args) != 1 or inner.keywords:
                    fail(n, '`np.array` with extra arguments')
                c = self.expr(inner.args[0], env)
                if c.ty != 'cells':
                    fail(n, '`np.array(..).T` of something that is not the list of cells')
                return V(f'(npArrayT {c.t})', 'idx', fresh=True)
            p = a(0, 'rawproj')
            return V(f'(RawProj.toTuple {p.t})', 'rawproj')
        if f == 'len' and len(args) == 1:
            v = a(0, 'cells', 'cliques', 'measlist', 'rawlist', 'clique', 'vec')
            return V(f'(List.length {v.t})', 'nat')
        if f == 'np.zeros' and len(args) == 1:
            return V(f'(NdArr.const {a(0, "shape").t} Scalar.zero)', 'ndarr', fresh=True)
        if f == 'Factor' and len(args) == 2 and self.where == 'active':
            return V(f'(Factor.mk\' {a(0, "dom").t} {a(1, "ndarr").t})', 'factor', fresh=True)
        if f == 'sparse.eye' and len(args) == 1:
            return V(f'(eye {a(0, "nat").t})', 'mat', fresh=True)
        if f == 'callbacks.Logger' and len(args) == 1 and ast.unparse(args[0]) == 'self':
            return V(self.use('logger'), 'val')
        if f == 'self.fix_measurements' and len(args) == 1:
            return V(f'(fixMeasurements self.cfg.domain {a(0, "rawlist").t})', 'measlist', fresh=True)
        if f == 'hasattr':
            fail(n, "`hasattr` is only translatable as a conjunct of an `if` test, in the form hasattr(self, 'model')")
        fail(n, 'call outside the subset')

    # ------------------------------------------------------------------ tests
    def static(self, n, env):
        """tests decided by the variant or by typing: True / False / None"""
        s = ast.unparse(n)
        if s == "backend == 'torch'" and env.get('backend') and env['backend'].ty == 'const:numpy':
            return False
        if isinstance(n, ast.Compare) and len(n.ops) == 1 and isinstance(n.ops[0], (ast.Is, ast.IsNot)) \
                and isinstance(n.comparators[0], ast.Constant) and n.comparators[0].value is None:
            v = self.expr(n.left, env)
            if v.ty in ('cv', 'dom', 'measlist', 'cliques'):        # never None by construction
                return isinstance(n.ops[0], ast.IsNot)
        return None

    def boolean(self, n, env):
        if isinstance(n, ast.BoolOp):
            op = ' && ' if isinstance(n.op, ast.And) else ' || '
            return V('(' + op.join(self.boolean(v, env).t for v in n.values) + ')', 'bool')
        if isinstance(n, ast.UnaryOp) and isinstance(n.op, ast.Not):
            return V(f'(!{self.boolean(n.operand, env).t})', 'bool')
        if isinstance(n, ast.Compare) and len(n.ops) == 1:
            op, l, r = n.ops[0], n.left, n.comparators[0]
            if isinstance(op, (ast.Is, ast.IsNot)):
                neg = isinstance(op, ast.IsNot)
                if isinstance(r, ast.Constant) and r.value is None:
                    v = self.expr(l, env)
                    if v.ty not in ('optscalar', 'optcb', 'optmat', 'optorder'):
                        fail(n, f'`is None` on a value of type {v.ty}')
                    return V(f'({v.t}).isSome' if neg else f'({v.t}).isNone', 'bool')
                if isinstance(l, ast.Call) and ast.unparse(l.func) == 'type' and len(l.args) == 1 and isinstance(r, ast.Name) and r.id in ('list', 'tuple'):
                    v = self.expr(l.args[0], env)
                    if v.ty == 'rawlist' and r.id == 'list':
                        return V('false' if neg else 'true', 'bool')
                    if v.ty != 'rawproj':
                        fail(n, '`type(..) is` on something that is not a projection')
                    t = f'(RawProj.is{r.id.capitalize()} {v.t})'
                    return V(f'(!{t})' if neg else t, 'bool')
            if isinstance(op, (ast.Eq, ast.NotEq)):
                a, b = self.expr(l, env), self.expr(r, env)
                if a.ty == b.ty and a.ty in ('str', 'nat'):
                    return V(f'({a.t} == {b.t})' if isinstance(op, ast.Eq) else f'({a.t} != {b.t})', 'bool')
                if {a.ty, b.ty} == {'metric', 'str'}:
                    fail(n, 'comparison of the metric outside the subset')
            if isinstance(op, (ast.Gt, ast.GtE, ast.Lt, ast.LtE)):
                a, b = self.expr(l, env), self.expr(r, env)
                if a.ty == b.ty == 'nat':
                    sym = {ast.Gt: '>', ast.GtE: '≥', ast.Lt: '<', ast.LtE: '≤'}[type(op)]
                    return V(f'(decide ({a.t} {sym} {b.t}))', 'bool')
        v = self.expr(n, env) if isinstance(n, (ast.Name, ast.Attribute)) else None
        if v is not None and v.ty == 'bool':
            return v
        fail(n, 'test outside the subset')

    # ------------------------------------------------------------------ statements
    def bind(self, env, key, v, lines, ty=None):
        ty = ty or v.ty
        nm = lname(key)
        lines.append(f'let {nm} : {LEANTY[ty]} := {v.t}')
        env[key] = V(nm, ty, fresh=v.fresh, origin=v.origin)

    def block(self, stmts, env):
        lines = []
        stmts = nodoc(stmts)
        i = 0
        while i < len(stmts):
            st = stmts[i]
            i += 1
            if isinstance(st, ast.Assert):
                self.assert_(st, env, lines)
            elif isinstance(st, ast.Assign):
                self.assign(st, env, lines)
            elif isinstance(st, ast.AugAssign):
                self.augassign(st, env, lines)
            elif isinstance(st, ast.Expr) and isinstance(st.value, ast.Call):
                self.effect(st.value, env, lines)
            elif isinstance(st, ast.If):
                self.if_(st, env, lines, stmts[i:])
            elif isinstance(st, ast.For):
                self.for_(st, env, lines, stmts[i:])
            elif isinstance(st, ast.ImportFrom):
                if self.where == 'init' and st.module == 'mbi' and [a.name for a in st.names] == ['Factor'] and not st.names[0].asname:
                    env['Factor'] = V('mbi.Factor', 'class')
                else:
                    fail(st, 'import outside the subset')
            elif isinstance(st, ast.Return):
                env['@return'] = st
                if i != len(stmts):
                    fail(st, 'statements after `return`')
            else:
                fail(st, 'statement outside the subset')
        return lines

    def assert_(self, st, env, lines):
        def ok(cond):
            nm = f'ok{len(self.pre) + 1}'
            lines.append(f'let {nm} : Bool := {cond}')
            self.pre.append(nm)
        if self.where != 'fix':
            return                       # documented: asserts elsewhere are preconditions decided by the variant
        t = st.test
        s = ast.unparse(t)
        if s == 'type(measurements) is list' or s == 'all((len(m) == 4 for m in measurements))' or s == 'np.isscalar(noise)':
            return                       # true by the typing of `RawMeas`
        if s == 'Q is None or Q.shape[0] == y.size':
            q, y = env['Q'], env['y']
            if q.ty != 'optmat' or y.ty != 'vec':
                fail(st, 'assertion read with the wrong types')
            ok(f'(match {q.t} with | none => true | some Q => List.length Q == List.length {y.t})')
            return
        if s == 'all((a in self.domain for a in proj))':
            p = env['proj']
            ok(f'(List.all (RawProj.attrs {p.t}) (fun a => List.contains (Dom.attrs self_domain) a) && RawProj.flat {p.t})')
            return
        if s == 'Q.shape[1] == self.domain.size(proj)':
            q, p = env['Q'], env['proj']
            if q.ty != 'mat':
                fail(st, '`Q.shape[1]` of something that is not (yet) a matrix')
            ok(f'(List.all {q.t} (fun row => List.length row == Dom.sizeOf self_domain (RawProj.attrs {p.t})))')
            return
        fail(st, 'assertion of fix_measurements outside the subset')

    def assign(self, st, env, lines):
        if len(st.targets) != 1:
            fail(st, 'chained assignment outside the subset')
        tg = st.targets[0]
        # model = GraphicalModel(self.domain, cliques, total, elimination_order=self.elim_order)
        if isinstance(st.value, ast.Call) and ast.unparse(st.value.func) == 'GraphicalModel':
            c = st.value
            if not (isinstance(tg, ast.Name) and tg.id == 'model') or self.where != 'setup':
                fail(st, 'a GraphicalModel may only be constructed as `model = GraphicalModel(..)` in _setup')
            if len(c.args) != 3 or [k.arg for k in c.keywords] != ['elimination_order']:
                fail(st, 'expected GraphicalModel(domain, cliques, total, elimination_order=..)')
            d, cl, tot = self.expr(c.args[0], env), self.expr(c.args[1], env), self.expr(c.args[2], env)
            eo = self.expr(c.keywords[0].value, env)
            if (d.ty, cl.ty, tot.ty, eo.ty) != ('dom', 'cliques', 'scalar', 'optorder'):
                fail(st, f'GraphicalModel arguments of types {(d.ty, cl.ty, tot.ty, eo.ty)}')
            for k in [k for k in env if k.startswith('model.')]:
                del env[k]
            self.bind(env, 'model.domain', d, lines)
            self.bind(env, 'model.inCliques', cl, lines)
            self.bind(env, 'model.elim', eo, lines)
            self.bind(env, 'model.total', tot, lines)
            self.bind(env, 'model.cliques', V(f'({self.use("gmCliques")} {env["model.domain"].t} {env["model.inCliques"].t} {env["model.elim"].t})', 'cliques', fresh=True), lines)
            env['model'] = V(None, 'newgm', fresh=True)
            return
        k = place(tg)
        if k is None:
            if isinstance(tg, ast.Subscript):
                return self.store(tg, st.value, env, lines, st)
            fail(st, 'assignment target outside the subset')
        if k == 'self.model':
            if self.where != 'setup' or not (isinstance(st.value, ast.Name) and st.value.id == 'model' and env.get('model') and env['model'].ty == 'newgm'):
                fail(st, '`self.model` may only be assigned the GraphicalModel constructed in this call of _setup')
            if 'model.potentials' not in env:
                fail(st, '`model.potentials` is not assigned before the model is stored')
            marg = env['model.marginals'].t if 'model.marginals' in env else 'none'
            g = 'GM.mk ' + ' '.join(env[f'model.{f}'].t for f in GMFIELDS[:-1]) + ' ' + marg
            lines.append(f'let self_model : GM α := {g}')
            lines.append('let self : Est α := { self with model := some self_model }')
            env['self.model!'] = V('self_model', 'gmval')
            self.model_present = True
            return
        if k.startswith('self.'):
            a = k[5:]
            if self.where == 'init':
                if a == 'history':
                    if not (isinstance(st.value, ast.List) and not st.value.elts):
                        fail(st, '`self.history` is expected to start empty')
                    return                      # write-only attribute (checked in check_sources)
                if a == 'Factor':
                    v = env.get(ast.unparse(st.value))
                    if v is None or v.ty != 'class':
                        fail(st, '`self.Factor` must be bound to the imported class')
                    env[k] = v
                    return
                if a == 'backend':
                    return                      # the variant: numpy
                if a not in CFGD:
                    fail(st, f'unknown attribute `{k}` (the estimator record has {[c for c, _ in CFG]}, model, groups)')
                v = self.expr(st.value, env)
                if v.ty != CFGD[a]:
                    fail(st, f'`{k}` is assigned a value of type {v.ty}, expected {CFGD[a]}')
                self.bind(env, k, v, lines)
                return
            fail(st, f'assignment to `{k}` outside the subset (only __init__ assigns configuration; _setup assigns model / groups)')
        if k.startswith('model.'):
            if env.get('model') is None or env['model'].ty != 'newgm':
                fail(st, 'store into a model object that was not constructed here')
            if k not in ('model.potentials', 'model.marginals'):
                fail(st, f'store to `{k}` outside the subset')
            v = self.expr(st.value, env)
            if v.ty != 'cv' or not v.fresh:
                fail(st, f'`{k}` must be assigned a newly created CliqueVector (aliasing is not modelled)')
            self.bind(env, k, v, lines)
            return
        v = self.expr(st.value, env)
        if v.ty in ('none', 'emptylist'):
            if v.ty == 'emptylist' and k == 'ans' and self.where == 'fix':
                v = V('([] : List (Loss.Meas α))', 'measlist', fresh=True)
            else:
                fail(st, 'untyped constant')
        if k in env and env[k].ty != v.ty and not ({env[k].ty, v.ty} == {'optmat', 'mat'}) and not ({env[k].ty, v.ty} == {'rawlist', 'measlist'}):
            fail(st, f'`{k}` changes its type from {env[k].ty} to {v.ty}')
        self.bind(env, k, v, lines)

    def store(self, tg, value, env, lines, st):
        """d[k] = e"""
        k = place(tg.value)
        if k is None or k not in env:
            fail(st, 'subscript store outside the subset')
        d = env[k]
        if d.ty == 'opts':
            if not (isinstance(tg.slice, ast.Constant) and isinstance(tg.slice.value, str)):
                fail(st, 'key of `options` is not a string literal')
            v = self.expr(value, env)
            t = f'({self.use("cbVal")} {v.t})' if v.ty == 'optcb' else v.t if v.ty == 'val' else fail(st, f'value of type {v.ty} stored in `options`')
            lines.append(f'let {lname(k)} : Opts V := optSet {d.t} "{tg.slice.value}" {t}')
            env[k] = V(lname(k), 'opts')
            return
        if d.ty == 'cv':
            if not d.fresh:
                fail(st, f'in-place store into `{k}`, which was not created in this function')
            i, v = self.expr(tg.slice, env), self.expr(value, env)
            if i.ty != 'clique' or v.ty != 'factor':
                fail(st, f'CliqueVector store with key {i.ty}, value {v.ty}')
            lines.append(f'let {lname(k)} : CliqueVec α := CliqueVec.set {d.t} {i.t} {v.t}')
            env[k] = V(lname(k), 'cv', fresh=True)
            return
        if d.ty == 'ndarr':
            if not d.fresh:
                fail(st, f'in-place store into `{k}`, which was not created in this function')
            i, v = self.expr(tg.slice, env), self.expr(value, env)
            if i.ty != 'idx' or v.ty != 'scalar':
                fail(st, f'array store with index {i.ty}, value {v.ty}')
            lines.append(f'let {lname(k)} : NdArr α := fancyStore {d.t} {i.t} {v.t}')
            env[k] = V(lname(k), 'ndarr', fresh=True)
            return
        fail(st, f'store into a value of type {d.ty}')

    def augassign(self, st, env, lines):
        k = place(st.target)
        if not isinstance(st.op, ast.Add) or k not in env or env[k].ty != 'cliques':
            fail(st, 'augmented assignment outside the subset')
        if not env[k].fresh:
            fail(st, f'in-place `+=` on `{k}`, which was not created in this function')
        v = self.expr(st.value, env)
        if v.ty != 'cliques':
            fail(st, f'`+=` of a {v.ty} to a list of cliques')
        lines.append(f'let {lname(k)} : List JT.Clique := {env[k].t} ++ {v.t}')
        env[k] = V(lname(k), 'cliques', fresh=True)

    def effect(self, c, env, lines):
        f = c.func
        s = ast.unparse(f)
        if s == 'print':
            return
        if isinstance(f, ast.Attribute) and f.attr == 'combine' and len(c.args) == 1 and not c.keywords:
            k = place(f.value)
            if k is None or k not in env or env[k].ty != 'cv':
                fail(c, '`combine` on something that is not a CliqueVector variable')
            if not env[k].fresh:
                fail(c, f'in-place `combine` on `{k}`, which was not created in this call (it would modify stored state)')
            o = self.expr(c.args[0], env)
            if o.ty != 'cv':
                fail(c, f'`combine` with a {o.ty}')
            lines.append(f'let {lname(k)} : CliqueVec α := CliqueVec.combine {env[k].t} {o.t}')
            env[k] = V(lname(k), 'cv', fresh=True)
            return
        if isinstance(f, ast.Attribute) and f.attr == 'append' and len(c.args) == 1 and not c.keywords:
            k = place(f.value)
            if k is None or k not in env or env[k].ty != 'measlist' or not env[k].fresh:
                fail(c, '`append` on something that is not a list created in this function')
            v = self.expr(c.args[0], env)
            if v.ty != 'meas':
                fail(c, f'`append` of a {v.ty}')
            lines.append(f'let {lname(k)} : List (Loss.Meas α) := {env[k].t} ++ [{v.t}]')
            env[k] = V(lname(k), 'measlist', fresh=True)
            return
        if self.where == 'estimate' and s in ('self.mirror_descent', 'self.dual_averaging', 'self.interior_gradient'):
            p = {'self.mirror_descent': 'md', 'self.dual_averaging': 'rda', 'self.interior_gradient': 'ig'}[s]
            if len(c.args) != 2 or len(c.keywords) != 1 or c.keywords[0].arg is not None:
                fail(c, 'expected solver(measurements, total, **options)')
            m, t, o = self.expr(c.args[0], env), self.expr(c.args[1], env), self.expr(c.keywords[0].value, env)
            if (m.ty, t.ty, o.ty) != ('measlist', 'optscalar', 'opts'):
                fail(c, f'solver called with {(m.ty, t.ty, o.ty)}')
            lines.append(f'let self : Est α := {self.use(p)} self {m.t} {t.t} {o.t}')
            env['@self'] = V('self', 'est')        # marks the state as changed
            return
        fail(c, 'call statement outside the subset')

    def if_(self, st, env, lines, after=()):
        d = self.static(st.test, env)
        if d is not None:
            lines += self.block(st.body if d else st.orelse, env)
            return
        # hasattr guard
        conj = st.test.values if isinstance(st.test, ast.BoolOp) and isinstance(st.test.op, ast.And) else [st.test]
        has = [c for c in conj if ast.unparse(c) == "hasattr(self, 'model')"]
        if any('hasattr' in ast.unparse(c) for c in conj if c not in has) or len(has) > 1:
            fail(st, "`hasattr` outside the form hasattr(self, 'model')")
        if has:
            if st.orelse:
                fail(st, '`else` of a hasattr guard outside the subset')
            if self.model_present:
                fail(st, "`hasattr(self, 'model')` after `self.model` was assigned in this call")
            rest = [c for c in conj if c not in has]
            e2 = dict(env)
            e2['self.model!'] = V('self_model', 'gmval')
            body = self.block(st.body, e2)
            ch = [k for k in e2 if k in env and e2[k] is not env[k]]
            if len(ch) != 1:
                fail(st, f'an `if` must assign exactly one variable, this one assigns {ch}')
            k = ch[0]
            scrut = ', '.join([self.boolean(c, env).t for c in rest] + ['self.model'])
            pat = ', '.join(['true'] * len(rest) + ['some self_model'])
            wild = ', '.join(['_'] * (len(rest) + 1))
            lines.append(f'let {lname(k)} : {LEANTY[e2[k].ty]} :=')
            lines += ind([f'match {scrut} with', f'| {pat} =>'] + ind(body + [e2[k].t]) + [f'| {wild} => {env[k].t}'])
            env[k] = V(lname(k), e2[k].ty, fresh=env[k].fresh and e2[k].fresh)
            return
        # if / elif chain
        branches, cur = [], st
        while True:
            branches.append((self.boolean(cur.test, env).t, cur.body))
            if len(cur.orelse) == 1 and isinstance(cur.orelse[0], ast.If):
                cur = cur.orelse[0]
            else:
                els = cur.orelse
                break
        outs = []
        for _, b in branches + [(None, els)]:
            e2 = dict(env)
            outs.append((self.block(b, e2), e2))
        ch = sorted({k for _, e2 in outs for k in e2 if (k not in env or e2[k] is not env[k]) and k != '@return'})
        local = [k for k in ch if k not in env]          # first assigned under the `if`: local to its branch ...
        for s_ in after:                                  # ... provided nothing after the `if` reads it
            for nd in ast.walk(s_):
                if place(nd) in local and isinstance(getattr(nd, 'ctx', None), ast.Load):
                    fail(nd, f'`{place(nd)}` is first assigned under an `if` and read after it')
        ch = [k for k in ch if k in env]
        if len(ch) != 1:
            fail(st, f'an `if` must assign exactly one variable, this one assigns {ch}')
        k = ch[0]
        if k == '@self':
            nm, ty = 'self', 'est'
        else:
            nm, ty = lname(k), outs[0][1][k].ty
            if any(e2[k].ty != ty and {e2[k].ty, ty} != {'optmat', 'mat'} for _, e2 in outs):
                fail(st, f'`{k}` gets different types in the branches')
            if self.where == 'fix' and k == 'Q':
                ty = 'mat'
        lines.append(f'let {nm} : {LEANTY[ty]} :=')
        chain = []
        for (c, _), (body, e2) in zip(branches, outs):
            chain += [f'if {c} then'] + ind(body + [self.coerce(e2[k], ty, st)]) + ['else']
        body, e2 = outs[-1]
        chain += ind(body + [self.coerce(e2[k] if k in e2 else env[k], ty, st)])
        lines += ind(chain)
        env[k] = V(nm, ty, fresh=all(e2[k].fresh for _, e2 in outs if k in e2))

    def coerce(self, v, ty, node):
        if v.ty == ty:
            return v.t
        if v.ty == 'optmat' and ty == 'mat':
            if self.where == 'fix':
                return f'(matOf {v.t})'     # reached only when `Q is None` is false
        fail(node, f'cannot use a {v.ty} as {ty}')

    def for_(self, st, env, lines, after):
        if st.orelse:
            fail(st, 'for/else outside the subset')
        xs = self.expr(st.iter, env)
        e2 = dict(env)
        if xs.ty == 'zspec' and isinstance(st.target, ast.Name):
            item, ity, seq = st.target.id, 'JT.Clique', f'(List.map Prod.fst {xs.t})'
            e2[item] = V(item, 'clique')
            head = []
        elif xs.ty == 'rawlist' and isinstance(st.target, ast.Tuple) and all(isinstance(e, ast.Name) for e in st.target.elts) and len(st.target.elts) == 4:
            item, ity, seq = 'item', 'RawMeas α', xs.t
            head = []
            for nm, f, ty in zip([e.id for e in st.target.elts], MEAS_FIELDS, ['optmat', 'vec', 'scalar', 'rawproj']):
                head.append(f'let {nm} : {LEANTY[ty]} := item.{f}')
                e2[nm] = V(nm, ty)
        else:
            fail(st, 'loop outside the subset')
        before = dict(e2)
        pre0 = len(self.pre)
        # state variables: places that exist before the loop and are re-bound in the body
        probe = dict(e2)
        saved_used, saved_pre = list(self.used), list(self.pre)
        self.block(st.body, probe)
        self.used, self.pre = saved_used, saved_pre
        state = [k for k in probe if k in env and probe[k] is not before[k]]
        local = [k for k in probe if k not in env and not k.startswith('@')]
        for s in after:
            for nd in ast.walk(s):
                if place(nd) in local and isinstance(getattr(nd, 'ctx', None), ast.Load):
                    fail(nd, f'`{place(nd)}` is first assigned inside a loop and read after it')
        if len(state) != 1:
            fail(st, f'a loop must update exactly one variable, this one updates {state}')
        k = state[0]
        ty = env[k].ty
        e2[k] = V(lname(k), ty, fresh=env[k].fresh)
        body = self.block(st.body, e2)
        if e2[k].ty != ty:
            fail(st, f'`{k}` changes its type in the loop')
        if len(self.pre) > pre0:                      # assertions inside the loop: quantified over the items
            conj = ' && '.join(self.pre[pre0:])
            pre_lets = [l for l in head + body if not l.startswith(f'let {lname(k)} ')]
            body = [l for l in body if not re.match(r'let ok\d+ : Bool', l)]
            self.pre[pre0:] = ['(List.all ' + seq + f' (fun ({item} : {ity}) =>\n' + '\n'.join(ind(pre_lets + [conj], 6)) + '))']
        lines.append(f'let {lname(k)} : {LEANTY[ty]} := List.foldl (fun ({lname(k)} : {LEANTY[ty]}) ({item} : {ity}) =>')
        lines += ind(head + body + [e2[k].t], 4)
        lines.append(f'  ) {env[k].t} {seq}')
        env[k] = V(lname(k), ty, fresh=env[k].fresh)


# ---------------------------------------------------------------------------------------------------------------------
def get_class(tree, name, fname):
    return next((n for n in tree.body if isinstance(n, ast.ClassDef) and n.name == name), None) or fail(tree, f'class {name} not found in {fname}')


def get_method(cls, name, args, defaults=None, static=False):
    fn = next((f for f in cls.body if isinstance(f, ast.FunctionDef) and f.name == name), None) or fail(cls, f'method {name} not found')
    a = fn.args
    decos = [ast.unparse(d) for d in fn.decorator_list]
    if [x.arg for x in a.args] != args or a.vararg or a.kwarg or a.kwonlyargs or a.posonlyargs or decos != (['staticmethod'] if static else []):
        fail(fn, f'signature of {name} changed: {[x.arg for x in a.args]} {decos}')
    ds = dict(zip(args[len(args) - len(a.defaults):], [ast.unparse(d) for d in a.defaults]))
    if defaults is not None and ds != defaults:
        fail(fn, f'defaults of {name} changed: {ds}, expected {defaults}')
    return fn


def check_sources(repo, cls):
    """facts about other code the reading relies on"""
    # GraphicalModel.__init__ : what `model.domain`, `model.total`, `model.cliques` are; no potentials / marginals yet
    CUR['file'] = 'graphical_model.py'
    gtree = ast.parse(open(os.path.join(repo, 'src', 'mbi', 'graphical_model.py')).read())
    g = get_class(gtree, 'GraphicalModel', 'graphical_model.py')
    gi = get_method(g, '__init__', ['self', 'domain', 'cliques', 'total', 'elimination_order'])
    top = [ast.unparse(s) for s in nodoc(gi.body)]
    for need in ('self.domain = domain', 'self.total = total', 'tree = JunctionTree(domain, cliques, elimination_order)',
                 'self.cliques = tree.maximal_cliques()'):
        if top.count(need) != 1:
            fail(gi, f'GraphicalModel.__init__ no longer contains exactly once `{need}`')
    for nd in ast.walk(gi):
        if isinstance(nd, (ast.Assign, ast.AugAssign)):
            for t in (nd.targets if isinstance(nd, ast.Assign) else [nd.target]):
                s = ast.unparse(t)
                if s in ('self.potentials', 'self.marginals'):
                    fail(nd, 'GraphicalModel.__init__ now assigns potentials / marginals (a fresh model is read as having neither)')
                if s in ('self.domain', 'self.total', 'self.cliques') and ast.unparse(nd) not in ('self.domain = domain', 'self.total = total', 'self.cliques = tree.maximal_cliques()'):
                    fail(nd, 'GraphicalModel.__init__ assigns domain / total / cliques in another way')
                if s in ('domain', 'total', 'cliques', 'elimination_order', 'tree'):
                    if ast.unparse(nd) != 'tree = JunctionTree(domain, cliques, elimination_order)':
                        fail(nd, 'GraphicalModel.__init__ re-binds a constructor argument')
    # mbi/__init__.py: what `from mbi import Factor` is
    CUR['file'] = '__init__.py'
    itree = ast.parse(open(os.path.join(repo, 'src', 'mbi', '__init__.py')).read())
    if not any(isinstance(s, ast.ImportFrom) and s.module == 'mbi.factor' and [a.name for a in s.names] == ['Factor'] for s in itree.body):
        fail(itree, '`mbi.Factor` is no longer `mbi.factor.Factor`')
    # callbacks.Logger.__init__ / CallBack.__init__ only store the engine
    CUR['file'] = 'callbacks.py'
    ctree = ast.parse(open(os.path.join(repo, 'src', 'mbi', 'callbacks.py')).read())
    for cn in ('CallBack', 'Logger'):
        c = get_class(ctree, cn, 'callbacks.py')
        ci = next((f for f in c.body if isinstance(f, ast.FunctionDef) and f.name == '__init__'), None) or fail(c, f'{cn}.__init__ not found')
        for nd in ast.walk(ci):
            if isinstance(nd, ast.Attribute) and ast.unparse(nd.value) in ('engine', 'self.engine') :
                fail(nd, f'{cn}.__init__ touches the engine (the construction of the logger is read as effect-free)')
    CUR['file'] = 'inference.py'
    # write-only / unmodelled attributes are never read in the class
    for nd in ast.walk(cls):
        if isinstance(nd, ast.Attribute) and isinstance(nd.ctx, ast.Load) and ast.unparse(nd) == 'self.history':
            fail(nd, '`self.history` is read (it is treated as write-only)')
    # attributes of the estimator assigned outside __init__ : only `model` and `groups`, only in `_setup`
    for fn in cls.body:
        if not isinstance(fn, ast.FunctionDef) or fn.name == '__init__':
            continue
        for nd in ast.walk(fn):
            tgs = nd.targets if isinstance(nd, ast.Assign) else [nd.target] if isinstance(nd, (ast.AugAssign, ast.AnnAssign)) else []
            for t in tgs:
                for leaf in ast.walk(t):
                    k = place(leaf)
                    if k and k.startswith('self.') and isinstance(leaf.ctx, ast.Store):
                        if not (fn.name == '_setup' and k in ('self.model', 'self.groups')):
                            fail(nd, f'`{k}` is assigned in {fn.name} (only _setup assigns state: model, groups)')
            if isinstance(nd, ast.Call) and ast.unparse(nd.func) in ('setattr', 'delattr', 'self.__dict__.update', 'vars'):
                fail(nd, 'reflective attribute access')
            if isinstance(nd, ast.Delete):
                fail(nd, '`del` outside the subset')
            if isinstance(nd, ast.Attribute) and ast.unparse(nd) == 'self.__dict__':
                fail(nd, 'reflective attribute access')


def params_of(tr, names=None):
    return [(p, t) for p, t in PARAMS if p in tr.used or (names and p in names)]


def emit(name, doc, cparams, args, ret, lines, implicit=''):
    ps = ' '.join(f'({p} : {t})' for p, t in cparams + args)
    return f'/-- {doc} -/\ndef {name} {implicit}{ps} : {ret} :=\n' + '\n'.join(ind(lines)) + '\n'


def tr_active(repo):
    CUR['file'] = 'factor.py'
    tree = ast.parse(open(os.path.join(repo, 'src', 'mbi', 'factor.py')).read())
    cls = get_class(tree, 'Factor', 'factor.py')
    fn = get_method(cls, 'active', ['domain', 'structural_zeros'], {}, static=True)
    tr = Tr('active')
    env = {'domain': V('domain', 'dom'), 'structural_zeros': V('structural_zeros', 'cells')}
    lines = tr.block(fn.body, env)
    r = env.get('@return') or fail(fn, 'no return')
    v = tr.expr(r.value, env)
    if v.ty != 'factor':
        fail(r, f'`active` returns a {v.ty}')
    CUR['file'] = 'inference.py'
    return emit('active', f'`Factor.active` (factor.py:{fn.lineno})', params_of(tr), [('domain', 'Dom'), ('structural_zeros', 'List (List Nat)')],
                'Factor α', lines + [v.t]), params_of(tr)


INIT_ARGS = ['self', 'domain', 'backend', 'structural_zeros', 'metric', 'log', 'iters', 'warm_start', 'elim_order']
INIT_TY = {'domain': 'dom', 'structural_zeros': 'zspec', 'metric': 'metric', 'log': 'bool', 'iters': 'nat', 'warm_start': 'bool', 'elim_order': 'optorder'}


def lean_default(p, src, fn):
    ty = INIT_TY[p]
    if ty == 'zspec' and src == '{}':
        return '[]'
    if ty == 'metric' and src in ("'L2'", "'L1'"):
        return 'Metric.' + src.strip("'")
    if ty == 'bool' and src in ('True', 'False'):
        return src.lower()
    if ty == 'nat' and src.isdigit():
        return src
    if ty == 'optorder' and src == 'None':
        return 'none'
    fail(fn, f'default `{p}={src}` outside the subset')


def tr_init(cls, active_params):
    fn = get_method(cls, '__init__', INIT_ARGS)
    ds = dict(zip(INIT_ARGS[len(INIT_ARGS) - len(fn.args.defaults):], [ast.unparse(d) for d in fn.args.defaults]))
    if ds.get('backend') != "'numpy'":
        fail(fn, 'the default backend is no longer numpy (the translated variant)')
    tr = Tr('init')
    env = {p: V(p, t) for p, t in INIT_TY.items()}
    env['backend'] = V('"numpy"', 'const:numpy')
    lines = tr.block(fn.body, env)
    if '@return' in env:
        fail(env['@return'], '`return` in __init__')
    missing = [c for c, _ in CFG if f'self.{c}' not in env]
    if missing:
        fail(fn, f'__init__ does not assign {missing}')
    lines.append('Est.mk (Cfg.mk ' + ' '.join(env[f'self.{c}'].t for c, _ in CFG) + ') none none')
    args = [(p, LEANTY[INIT_TY[p]]) for p in INIT_ARGS[1:] if p in INIT_TY]
    cps = params_of(tr)
    out = emit('init', f'`FactoredInference.__init__` (inference.py:{fn.lineno}), backend=\'numpy\'; `model` / `groups` do not exist yet', cps, args, 'Est α', lines)
    dargs = [(p, t) for p, t in args if p not in ds]
    call = ' '.join([p for p, _ in cps] + [p if p not in ds else lean_default(p, ds[p], fn) for p, _ in args])
    out += '\n' + emit('initDefault', '`FactoredInference(domain)`: the defaults of the signature', cps, dargs, 'Est α', [f'init {call}'])
    return out


def tr_fix(cls):
    fn = get_method(cls, 'fix_measurements', ['self', 'measurements'])
    tr = Tr('fix')
    env = {'measurements': V('measurements', 'rawlist'), 'self.domain': V('self_domain', 'dom')}
    lines = tr.block(fn.body, env)
    r = env.get('@return') or fail(fn, 'no return')
    v = tr.expr(r.value, env)
    if v.ty != 'measlist':
        fail(r, f'`fix_measurements` returns a {v.ty}')
    args = [('self_domain', 'Dom'), ('measurements', 'List (RawMeas α)')]
    out = emit('fixMeasurements', f'`fix_measurements` (inference.py:{fn.lineno}): the list it returns (a new list; the argument is only read)', [], args, 'List (Loss.Meas α)', lines + [v.t])
    out += '\n' + emit('fixMeasurementsOk', '`fix_measurements`: the conjunction of its assertions', [], args, 'Bool', [' &&\n  '.join(tr.pre) if tr.pre else 'true'])
    return out


def tr_setup(src, repo, cls):
    fn = get_method(cls, '_setup', ['self', 'measurements', 'total'])
    body = nodoc(fn.body)
    # (a) the block of py2total
    CUR['file'] = 'inference.py'
    try:
        py2total.CUR['file'] = 'inference.py'
        blk = py2total.method_block(ast.parse(src), 'FactoredInference')
    except py2total.Untranslatable as e:
        raise Untranslatable(str(e))
    # (b) the block of py2inf
    try:
        inf_defs = py2inf.translate(src, repo)
    except py2inf.Untranslatable as e:
        raise Untranslatable('py2inf: ' + str(e))
    gi = next((i for i, s in enumerate(body) if isinstance(s, ast.Assign) and ast.unparse(s.targets[0]) == 'self.groups'), None)
    if gi is None or gi < 2 or ast.unparse(body[gi - 1]) != 'cliques = self.model.cliques':
        fail(fn, 'the grouping block `cliques = self.model.cliques; self.groups = ..; for ..` not found')
    if ast.unparse(body[gi].value) != 'defaultdict(lambda: [])' or len(body) != gi + 2 or not isinstance(body[gi + 1], ast.For):
        fail(body[gi], 'the grouping block is no longer `self.groups = defaultdict(lambda: [])` followed by one loop')
    middle = body[1:gi - 1]
    assigned_in_blk = {place(t) for nd in ast.walk(blk) if isinstance(nd, (ast.Assign, ast.AugAssign)) for t in (nd.targets if isinstance(nd, ast.Assign) else [nd.target]) for t in ast.walk(t) if place(t)}
    assigned_in_blk |= {place(t) for nd in ast.walk(blk) if isinstance(nd, ast.For) for t in ast.walk(nd.target) if place(t)}
    for s in middle:
        for nd in ast.walk(s):
            if place(nd) in assigned_in_blk - {'total'} and isinstance(getattr(nd, 'ctx', None), ast.Load):
                # a name of the total block read later: only allowed when re-assigned first (conservative: stop)
                fail(nd, f'`{place(nd)}` of the estimate-the-total block is read after it')
    tr = Tr('setup')
    env = {'measurements': V('measurements', 'measlist')}
    lines = [f'let total : α := match total with | none => {tr.use("estTotal")} measurements | some total => total']
    env['total'] = V('total', 'scalar')
    lines += tr.block(middle, env)
    if '@return' in env:
        fail(env['@return'], '`return` in _setup')
    if not tr.model_present:
        fail(fn, '_setup does not assign `self.model`')
    if env['model.domain'].origin != 'self.domain':
        fail(fn, '`model.domain` is no longer `self.domain` (py2inf reads both as one parameter)')
    # the grouping block by name, with the parameter list py2inf produced
    d = next(x for x in inf_defs if '\ndef setupGroups ' in x)
    ps = re.findall(r'\((\w+) : ', d.split('\ndef setupGroups ')[1].split(':=')[0])
    term = {'domain': env['model.domain'].t, 'cliques': 'cliques', 'measurements': 'measurements'}
    if any(p not in term for p in ps):
        fail(fn, f'py2inf: setupGroups has parameters {ps}')
    lines.append('let cliques : List JT.Clique := ' + tr.expr(body[gi - 1].value.value, env).t + '.cliques')
    lines.append(f'let self : Est α := {{ self with groups := some (InfG.setupGroups {" ".join(term[p] for p in ps)}) }}')
    lines.append('self')
    args = [('self', 'Est α'), ('measurements', 'List (Loss.Meas α)'), ('total', 'Option α')]
    return emit('setup', f'`_setup` (inference.py:{fn.lineno}); `estTotal` is the value of the block under `if total is None:` (py2total), the grouping loop is `InfG.setupGroups` (py2inf)',
                params_of(tr), args, 'Est α', lines), params_of(tr), inf_defs


def tr_estimate(cls):
    fn = get_method(cls, 'estimate', ['self', 'measurements', 'total', 'engine', 'callback', 'options'],
                    {'total': 'None', 'engine': "'MD'", 'callback': 'None', 'options': '{}'})
    tr = Tr('estimate')
    env = {'measurements': V('measurements', 'rawlist'), 'total': V('total', 'optscalar'), 'engine': V('engine', 'str'),
           'callback': V('callback', 'optcb'), 'options': V('options', 'opts'), '@self': V('self', 'est')}
    lines = tr.block(fn.body, env)
    r = env.get('@return') or fail(fn, 'no return')
    v = tr.expr(r.value, env)
    if v.ty != 'optgm' or v.t != 'self.model':
        fail(r, '`estimate` is expected to return `self.model`')
    args = [('self', 'Est α'), ('measurements', 'List (RawMeas α)'), ('total', 'Option α'), ('engine', 'String'),
            ('callback', 'Option Cb'), ('options', 'Opts V')]
    cps = params_of(tr)
    out = emit('estimate', f'`estimate` (inference.py:{fn.lineno}): new estimator state, final content of the dict bound to `options`, returned model (`none`: AttributeError)',
               cps, args, 'Est α × Opts V × Option (GM α)', lines + [f'(self, {env["options"].t}, {v.t})'], implicit='{V Cb : Type} ')
    # the mutable default `options = {}`: one dict per function object
    call = ' '.join([p for p, _ in cps] + ['self', 'measurements', 'total', 'engine', 'callback'])
    wl = ['match options with',
          f'| some o => let r := estimate {call} o; (r.1, dflt, r.2.2)',
          f'| none => let r := estimate {call} dflt; (r.1, r.2.1, r.2.2)']
    wargs = [('dflt', 'Opts V')] + args[:-1] + [('options', 'Option (Opts V)')]
    out += '\n' + emit('estimateCall', '`estimate` as called: `options` omitted means the ONE default dict of the function object (`dflt`, initially `{}`), whose content after the call is the second component',
                       cps, wargs, 'Est α × Opts V × Option (GM α)', wl, implicit='{V Cb : Type} ')
    return out


SOLVERS = [('mirror_descent', 'mirrorDescent', ['self', 'measurements', 'total', 'stepsize', 'callback']),
           ('dual_averaging', 'dualAveraging', ['self', 'measurements', 'total', 'lipschitz', 'callback']),
           ('interior_gradient', 'interiorGradient', ['self', 'measurements', 'total', 'lipschitz', 'c', 'sigma', 'callback'])]


def tr_shells(cls, inf_defs, setup_params):
    def plist(name):
        d = next((x for x in inf_defs if f'\ndef {name} ' in x), None) or fail(cls, f'py2inf produced no `{name}`')
        return re.findall(r'\((\w+) : ', d.split(f'\ndef {name} ')[1].split(' :=')[0])
    inv = {}
    for src_place, v in py2inf.SELF_ATTRS.items():
        inv.setdefault(v.t, []).append(src_place)
    out = []
    for py, lean, args in SOLVERS:
        fn = get_method(cls, py, args)
        body = nodoc(fn.body)
        i = 0
        while i < len(body) and isinstance(body[i], ast.Assert):
            i += 1
        if len(body) < i + 2 or ast.unparse(body[i]) != 'self._setup(measurements, total)' or ast.unparse(body[i + 1]) != 'model = self.model':
            fail(fn, f'{py} no longer starts (after its assertions) with `self._setup(measurements, total)`; `model = self.model`')
        for s in body[i + 2:]:
            for nd in ast.walk(s):
                if isinstance(nd, ast.Call) and ast.unparse(nd.func) == 'self._setup':
                    fail(nd, 'second call of _setup')
                if isinstance(nd, (ast.Assign, ast.AugAssign)):
                    for t in (nd.targets if isinstance(nd, ast.Assign) else [nd.target]):
                        for leaf in ast.walk(t):
                            if isinstance(leaf, ast.Name) and leaf.id in ('model', 'measurements') and isinstance(leaf.ctx, ast.Store):
                                fail(nd, f'`{leaf.id}` re-bound in the solver body')
                            if isinstance(leaf, ast.Attribute) and ast.unparse(leaf.value) == 'model' and leaf.attr not in ('potentials', 'marginals'):
                                fail(nd, f'store to `model.{leaf.attr}`')
        used = []

        def term(p, used=used):
            def u(x):
                if x not in used:
                    used.append(x)
                return x
            srcs = inv.get(p, [])
            if p == 'potentials':
                return 'model.potentials'
            if p == 'measurements':
                return 'measurements'
            if p == 'domain' and sorted(srcs) == ['model.domain', 'self.domain']:
                return 'self.cfg.domain'
            one = {'model.cliques': 'model.cliques', 'model.total': 'model.total', 'self.iters': 'self.cfg.iters',
                   'self.structural_zeros': 'self.cfg.structural_zeros'}
            if len(srcs) == 1 and srcs[0] in one:
                return one[srcs[0]]
            if srcs == ['model.belief_propagation']:
                return f'({u("bp")} model)'
            if srcs == ['model.mle']:
                return f'({u("mle")} model)'
            if srcs == ['@eigs']:
                return f'({u("topEigs")} measurements)'
            if srcs == ['self._marginal_loss']:
                a2 = ' '.join(term(q) for q in plist('marginalLossL2') if q != 'marginals')
                a1 = ' '.join(term(q) for q in plist('marginalLossL1') if q != 'marginals')
                if plist('marginalLossL2')[-1] != 'marginals' or plist('marginalLossL1')[-1] != 'marginals':
                    fail(cls, 'py2inf: `marginals` is not the last parameter of marginalLoss')
                return f'(match self.cfg.metric with | Metric.L2 => InfG.marginalLossL2 {a2} | Metric.L1 => InfG.marginalLossL1 {a1})'
            if srcs == ['self._lipschitz(measurements)']:
                return '(InfG.lipschitz ' + ' '.join(term(q) for q in plist('lipschitz')) + ')'
            fail(cls, f'py2inf: parameter `{p}` of {lean} has no reading here ({srcs})')
        call = f'InfG.{lean} ' + ' '.join(term(p) for p in plist(lean))
        sp = ' '.join(p for p, _ in setup_params)
        lines = [f'let self : Est α := setup {sp} self measurements total',
                 'match self.model with',
                 '| none => self',
                 '| some model =>',
                 f'  let r : Solvers.Result α := {call}',
                 '  { self with model := some { model with potentials := r.potentials, marginals := r.marginals } }']
        cps = [(p, t) for p, t in PARAMS if p in used or (p, t) in setup_params]
        out.append(emit(lean + 'Shell', f'`{py}` (inference.py:{fn.lineno}) = `self._setup(measurements, total)`; `model = self.model`; the body as translated by py2inf (`InfG.{lean}`, its variant), '
                        'whose stores `model.potentials = ..` / `model.marginals = ..` go to the object `self.model` refers to',
                        cps, [('self', 'Est α'), ('measurements', 'List (Loss.Meas α)'), ('total', 'Option α')], 'Est α', lines))
    return out


HEADER = '''/- GENERATED by tools/py2est.py from src/mbi/inference.py and src/mbi/factor.py — do not edit
   The stateful shell of `class FactoredInference` (numpy backend) as functions on the record `Est`, and `Factor.active`.
   `Cfg` holds the attributes only `__init__` assigns; `model` / `groups` are the attributes `_setup` assigns (absent before
   the first call).  Contracts (parameters): `negInf` = `-np.inf`; `gmCliques d cs eo` = `GraphicalModel(d, cs, total,
   elimination_order=eo).cliques`; `estTotal ms` = the value of the block under `if total is None:` (py2total); `bp m` /
   `mle m` = `m.belief_propagation` / `m.mle` of a model object; `topEigs`; `logger` = `callbacks.Logger(self)`; `cbVal c` = a
   callback as a value of the options dict; `md` / `rda` / `ig` = the three solver methods. -/
import PGM.Model.Engine
import PGM.Model.Loss
import PGM.Generated.InferenceG
set_option linter.unusedVariables false
namespace PGM.EstG
open PGM
variable {α : Type} [Scalar α]

/-- the `metric` option ('L2' | 'L1'; callables are outside the subset) -/
inductive Metric where
  | L2 | L1
  deriving DecidableEq, Repr

/-- the attributes of a `FactoredInference` object that only `__init__` assigns -/
structure Cfg (α : Type) where
  domain : Dom
  metric : Metric
  log : Bool
  iters : Nat
  warm_start : Bool
  elim_order : Option (List Attr)
  structural_zeros : CliqueVec α

/-- a `GraphicalModel` object as the estimator sees it: constructor arguments (`domain`, `inCliques`, `elim`, `total`), the
maximal cliques computed from them, and the two attributes assigned from outside -/
structure GM (α : Type) where
  domain : Dom
  inCliques : List JT.Clique
  elim : Option (List Attr)
  cliques : List JT.Clique
  total : α
  potentials : CliqueVec α
  marginals : Option (CliqueVec α)

/-- a `FactoredInference` object -/
structure Est (α : Type) where
  cfg : Cfg α
  model : Option (GM α)
  groups : Option (List (JT.Clique × List (Loss.Meas α)))

/-- a dict with string keys (insertion order) -/
abbrev Opts (V : Type) := List (String × V)

/-- `d[k] = v` -/
def optSet {V : Type} (d : Opts V) (k : String) (v : V) : Opts V :=
  if d.any (fun p => p.1 == k) then d.map (fun p => if p.1 == k then (k, v) else p) else d ++ [(k, v)]

/-- `d[k]` for a key of the dict (`[]` stands for KeyError) -/
def dictGet (d : List (JT.Clique × List (List Nat))) (k : JT.Clique) : List (List Nat) := (d.lookup k).getD []

/-- what a caller may pass as `proj`: a list, a tuple, a single attribute name; `nested` is a 1-tuple around something that is
not an attribute name (it only arises inside `fix_measurements`) -/
inductive RawProj where
  | list (l : List Attr) | tuple (l : List Attr) | atom (a : Attr) | nested
  deriving DecidableEq, Repr

namespace RawProj
def isList : RawProj → Bool | list _ => true | _ => false
def isTuple : RawProj → Bool | tuple _ => true | nested => true | _ => false
/-- `tuple(p)` (a string is iterated character by character) -/
def toTuple : RawProj → RawProj
  | list l => tuple l | tuple l => tuple l | atom a => tuple (a.toList.map (fun c => String.singleton c)) | nested => nested
/-- `(p,)` -/
def single : RawProj → RawProj | atom a => tuple [a] | _ => nested
/-- the elements, as downstream code iterates them (`set(proj)`, `for a in proj`): a string is iterated character by character -/
def attrs : RawProj → List Attr
  | list l => l | tuple l => l | atom a => a.toList.map (fun c => String.singleton c) | nested => []
/-- every element is an attribute name -/
def flat : RawProj → Bool | nested => false | _ => true
end RawProj

/-- a measurement as the caller passes it: `Q` may be `None` -/
structure RawMeas (α : Type) where
  Q : Option (List (List α))
  y : List α
  noise : α
  proj : RawProj

/-- `sparse.eye(n)` -/
def eye (n : Nat) : List (List α) :=
  (List.range n).map (fun i => (List.range n).map (fun j => if i == j then Scalar.one else Scalar.zero))

/-- a `Q` known not to be `None` -/
def matOf (q : Option (List (List α))) : List (List α) := q.getD []

/-- `np.array(cells).T` as a tuple of index arrays: one array per coordinate (`np.array([]).T` is the empty 1-d array, and its
`tuple` is `()`) -/
def npArrayT (cells : List (List Nat)) : List (List Nat) :=
  match cells with
  | [] => []
  | c :: _ => (List.range c.length).map (fun k => cells.map (fun x => x.getD k 0))

/-- the cells addressed by a tuple of index arrays of equal length -/
def idxCells (idx : List (List Nat)) : List (List Nat) :=
  match idx with
  | [] => []
  | c :: _ => (List.range c.length).map (fun j => idx.map (fun col => col.getD j 0))

/-- `vals[idx] = c`, numpy's advanced-index store with a tuple of integer index arrays: the EMPTY tuple addresses the whole
array; one array per axis addresses the cells `(idx[0][j], …, idx[r-1][j])` (fewer arrays than axes: not modelled) -/
def fancyStore (vals : NdArr α) (idx : List (List Nat)) (c : α) : NdArr α :=
  NdArr.ofFn vals.shape (fun i => if idx.isEmpty || (idxCells idx).contains i then c else vals.get i)

'''


def translate(repo):
    CUR['file'] = 'inference.py'
    src = open(os.path.join(repo, 'src', 'mbi', 'inference.py')).read()
    tree = ast.parse(src)
    cls = get_class(tree, 'FactoredInference', 'inference.py')
    check_sources(repo, cls)
    defs = []
    a, aparams = tr_active(repo)
    defs.append(a)
    defs.append(tr_init(cls, aparams))
    defs.append(tr_fix(cls))
    s, sparams, inf_defs = tr_setup(src, repo, cls)
    defs.append(s)
    defs.append(tr_estimate(cls))
    defs += tr_shells(cls, inf_defs, sparams)
    return defs


def main():
    ap = argparse.ArgumentParser()
    ap.add_argument('--repo', default='/repo')
    ap.add_argument('--out', required=True)
    a = ap.parse_args()
    try:
        defs = translate(a.repo)
    except (Untranslatable, py2inf.Untranslatable, py2total.Untranslatable) as e:
        print('py2est: source outside the translatable subset:', e)
        return 1
    except (OSError, SyntaxError) as e:
        print('py2est: source outside the translatable subset:', f'cannot read/parse the source: {e}')
        return 1
    os.makedirs(a.out, exist_ok=True)
    with open(os.path.join(a.out, 'EstimateG.lean'), 'w') as f:
        f.write(HEADER + '\n'.join(defs) + '\nend PGM.EstG\n')
    print(f'py2est: {sum(d.count(chr(10) + "def ") + d.startswith("def ") for d in defs)} definitions')
    return 0


if __name__ == '__main__':
    sys.exit(main())
