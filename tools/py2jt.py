#!/usr/bin/env python3
"""tools/py2jt.py --repo R --out DIR

Statement-level translation of `src/mbi/junction_tree.py` (class JunctionTree) into Lean definitions over the graph /
tree substrate of `PGM/Model/JTree.lean` and the Python / networkx / numpy contracts of `PGM/Model/JTreeNx.lean`
(`PGM/Generated/JunctionTreeG.lean`, namespace `PGM.JTG`).  `PGM/Properties/C12G.lean` ties every generated definition
to the hand model the C12 theorems are about and re-states those theorems for the generated definitions.

Every method is translated from its AST: `__init__` (once per form of `elimination_order`), `maximal_cliques`, `mp_order`,
`separator_axes`, `neighbors`, `_make_graph`, `_triangulated`, `_greedy_order` (once per constant value of `stochastic`),
`_make_tree` (once per dynamic type of `order`: None / int / a sequence).  Fields `self.domain`, `self.cliques`, `self.graph`,
`self.tree` read by a method become parameters `d`, `cliques`, `graph`, `tree` of its definition.

The translatable subset (anything else stops the translator with file:line — a broken obligation, never a silent skip):

statements
  x = e | a, b = e1, e2 | a, b = self.m(..)        `let` (re-binding shadows)
  x |= e, x -= e (sets), x += e (numbers), x /= e (arrays)
  x.add(e) (sets), x.append(e), x.remove(e) (lists), d[k] = e (OrderedDict)
  G.add_nodes_from(e), G.add_edges_from(e), G.remove_node(e), G.add_edge(a, b, weight=e)
  for v in e / for a, b in e                       `foldl` over the explicit state tuple = the outer variables the body assigns
  if c: … [else: …]                                 conditional state update; a test on a constant parameter (`stochastic`) or on
                                                    the dynamic type of `order` (`order is None`, `type(order) is int`) selects the variant
  return e | return e1, e2                          (last statement only)
  self.f = e                                        in `__init__`: field wiring, checked against the fields each method reads;
                                                    `self.elimination_order = e` in `_make_tree`: a local, emitted as the
                                                    definitions `elimination_order_*` (no reader inside this file)
expressions
  names, int constants, tuples of two (pairs), p[0] / p[1] on pairs, xs[i] on lists (`getD`), d[k] on dicts
  tuple(e) / list(e) of a sequence = e;  tuple(s) of a set = `tos s` (iteration order of a set: explicit parameter)
  set(), set(e), {e}, s & t, s - t, set.union(s0, *map(set, xs))          `JT.toSet`, `setInter`, `setDiff`, `setUnionAll`
  [e for pat in xs], (e for …), {k: v for pat in xs}                        `map` (a dict comprehension: association list)
  filter(lambda v: c, xs), map(set, xs), xs + ys, len(e), sorted(cliques), sum(nats), range(n)
  min(xs, key=lambda v: e)                                                  `JT.pyMin` (first element of least key)
  ==, !=, in, and
  self.domain.attrs / .project(e) / .canonical(e) / e.size() / len(domain)  `Dom.*` (domain.py: py2dom / C15G; `__len__` re-read here)
  itertools.combinations(e, 2)                                              `JT.combinations2`
  nx.Graph() / nx.Graph(G) / G.neighbors(v) / nx.DiGraph() / tree.edges() / tree.neighbors(i)
  nx.find_cliques, nx.minimum_spanning_tree, nx.topological_sort, nx.dfs_preorder_nodes: function PARAMETERS of the
      generated definition (their contracts are hypotheses of the theorems in C12G)
  np.array([..], dtype=float), np.max(v), v.sum(), v.size, scalar-array arithmetic (+ - /) over `Rat`
  np.random.choice(n, p=v): `choice n v (head of rng)`, `rng := tail` — `choice` is a parameter, the outcomes `rng` an argument
  self._greedy_order(stochastic=True) inside `[… for _ in range(n)]`: the k-th call gets the outcome list `draws[k]`
"""
import argparse, ast, os, sys

SRC = 'junction_tree.py'


class Untranslatable(Exception):
    pass


def fail(node, why):
    raise Untranslatable(f'{SRC} line {getattr(node, "lineno", "?")}: {why}: '
                         f'{ast.unparse(node) if isinstance(node, ast.AST) else node}')


# ---------------------------------------------------------------- types
ATTR, NAT, INT, RAT, BOOL, DOM, GRAPH, TREE, DIGRAPH, WGRAPH, NONE = \
    'Attr', 'Nat', 'Int', 'Rat', 'Bool', 'Dom', 'Graph', 'Tree', 'DiGraph', 'WGraph', 'None'


def L(t): return ('list', t)
def S(t): return ('set', t)
def P(a, b): return ('pair', a, b)
def D(k, v): return ('dict', k, v)


CLIQUE = L(ATTR)
MSG = P(CLIQUE, CLIQUE)


def lty(t):
    if t == L(CLIQUE) or t == S(CLIQUE):
        return 'List Clique'
    if t == MSG:
        return 'Msg'
    if isinstance(t, str):
        return t
    if t[0] in ('list', 'set'):
        x = lty(t[1])
        return f'List ({x})' if ' ' in x else f'List {x}'
    if t[0] == 'pair':
        return f'{par(lty(t[1]))} × {par(lty(t[2]))}'
    if t[0] == 'dict':
        return f'List ({par(lty(t[1]))} × {par(lty(t[2]))})'
    raise Untranslatable(f'no Lean type for {t}')


def par(s):
    return f'({s})' if ' ' in s else s


def seq(t):
    return isinstance(t, tuple) and t[0] in ('list', 'set')


KEYWORDS = {'from', 'at', 'end', 'open', 'in', 'fun', 'let', 'do', 'then', 'else', 'if', 'have', 'show', 'by', 'match', 'with',
            'where', 'def', 'theorem', 'variable', 'universe', 'namespace', 'section', 'instance', 'structure', 'class',
            'import', 'export', 'variables', 'Type', 'Prop', 'Sort', 's_', 'p_', 'rng', 'draws', 'default'}


def ident(name):
    if name == '_':
        return 'k_'
    return name + '_' if name in KEYWORDS else name


# contract parameters, in signature order
CONTRACTS = [('tos', 'List Attr → List Attr'), ('find_cliques', 'Graph → List Clique'),
             ('minimum_spanning_tree', 'WGraph → Tree'), ('topological_sort', 'DiGraph → List Msg'),
             ('dfs_preorder_nodes', 'Tree → List Clique'), ('choice', 'Nat → List Rat → Nat → Nat')]
FIELDS = [('domain', 'd', DOM), ('cliques', 'cliques', L(CLIQUE)), ('graph', 'graph', GRAPH), ('tree', 'tree', TREE)]
# element types of containers that start empty
EMPTY_HINTS = {('mp_order', 'edges'): S(P(MSG, MSG)), ('_triangulated', 'edges'): S(P(ATTR, ATTR)),
               ('_greedy_order', 'order'): L(ATTR), ('_greedy_order', 'cost'): D(ATTR, NAT)}


# node types of graphs that start empty (attributes / cliques with weighted edges)
GRAPH_HINTS = {('_make_graph', 'G'): GRAPH, ('_make_tree', 'complete'): WGRAPH}


class Var:
    def __init__(self, term, ty):
        self.term, self.ty = term, ty


class Const:
    def __init__(self, value):
        self.value = value


class Sig:
    """signature of a generated definition"""
    def __init__(self, name, contracts, fields, args, extra, ret):
        self.name, self.contracts, self.fields, self.args, self.extra, self.ret = name, contracts, fields, args, extra, ret

    def call(self, argterms, extraterms):
        ps = [c for c, _ in CONTRACTS if c in self.contracts] + [l for f, l, _ in FIELDS if f in self.fields]
        return '(' + ' '.join([self.name] + ps + list(argterms) + list(extraterms)) + ')'


class Ctx:
    """one generated definition: what it reads (contracts, fields)"""
    def __init__(self, tr, fname):
        self.tr, self.fname = tr, fname
        self.contracts, self.fields, self.extra, self.shadowed = set(), set(), [], set()

    def use(self, c):
        self.contracts.add(c)
        return c

    def inherit(self, sig):
        bad = [l for f, l, _ in FIELDS if f in sig.fields and l in self.shadowed]
        if bad:
            raise Untranslatable(f'{SRC}: {self.fname} calls {sig.name} after a local re-bound the field name(s) {bad}')
        self.contracts |= sig.contracts
        self.fields |= sig.fields


def assigned_names(stmts):
    """names (re)bound by a statement list, in order of first occurrence"""
    out = []

    def add(n):
        if n not in out:
            out.append(n)

    def target(t):
        if isinstance(t, ast.Name):
            add(t.id)
        elif isinstance(t, ast.Tuple):
            for e in t.elts:
                target(e)
        elif isinstance(t, ast.Subscript) and isinstance(t.value, ast.Name):
            add(t.value.id)
        elif isinstance(t, ast.Attribute) and isinstance(t.value, ast.Name) and t.value.id == 'self':
            add('self_' + t.attr)

    def walk(st):
        if isinstance(st, ast.Assign):
            for t in st.targets:
                target(t)
            if any(isinstance(c, ast.Call) and ast.unparse(c.func) == 'np.random.choice' for c in ast.walk(st.value)):
                add('rng')
        elif isinstance(st, ast.AugAssign):
            target(st.target)
        elif isinstance(st, ast.Expr) and isinstance(st.value, ast.Call) and isinstance(st.value.func, ast.Attribute) \
                and isinstance(st.value.func.value, ast.Name):
            add(st.value.func.value.id)        # a mutating method call re-binds its receiver
        elif isinstance(st, ast.For):
            target(st.target)
            for s in st.body:
                walk(s)
        elif isinstance(st, ast.If):
            for s in st.body + st.orelse:
                walk(s)
    for st in stmts:
        walk(st)
    return out


def proj(i, n):
    """i-th component of a right-nested n-tuple `s_`"""
    if n == 1:
        return 's_'
    return 's_.' + '.'.join(['2'] * i + (['1'] if i < n - 1 else []))


class Block:
    def __init__(self, ctx, env, depth):
        self.ctx, self.env, self.depth = ctx, dict(env), depth
        self.lines, self.ret = [], None

    # ------------------------------------------------------------ helpers
    def ind(self):
        return '  ' * self.depth

    def let(self, name, term, ty, annotate=False):
        nm = ident(name)
        if nm in [l for _, l, _ in FIELDS]:
            self.ctx.shadowed.add(nm)
        ann = f' : {lty(ty)}' if annotate else ''
        self.lines.append(f'{self.ind()}let {nm}{ann} := {term}')
        self.env[name] = Var(nm, ty)

    def var(self, n):
        v = self.env.get(n.id)
        if isinstance(v, Var):
            return v
        fail(n, 'unknown or non-value name')

    # ------------------------------------------------------------ expressions
    def ex(self, n):
        t, ty = self._ex(n)
        return t, ty

    def lam(self, fn, argty):
        """a one-argument lambda -> (lean fun, result type)"""
        if not (isinstance(fn, ast.Lambda) and len(fn.args.args) == 1 and not fn.args.vararg and not fn.args.kwonlyargs):
            fail(fn, 'expected a one-argument lambda')
        v = fn.args.args[0].arg
        inner = Block(self.ctx, self.env, self.depth)
        inner.env[v] = Var(ident(v), argty)
        t, ty = inner.ex(fn.body)
        return f'(fun {ident(v)} => {t})', ty

    def bind_target(self, target, elty, inner):
        """loop / comprehension target -> (lambda parameter, let-lines) in block `inner`"""
        if isinstance(target, ast.Name):
            inner.env[target.id] = Var(ident(target.id), elty)
            return ident(target.id), []
        if isinstance(target, ast.Tuple) and len(target.elts) == 2 and all(isinstance(e, ast.Name) for e in target.elts) \
                and isinstance(elty, tuple) and elty[0] == 'pair':
            lets = []
            for k, e in enumerate(target.elts):
                inner.env[e.id] = Var(ident(e.id), elty[k + 1])
                lets.append(f'let {ident(e.id)} := p_.{k + 1}')
            return 'p_', lets
        fail(target, f'unsupported loop target for elements of type {elty}')

    def comp(self, n, elt_fn):
        if len(n.generators) != 1 or n.generators[0].ifs or n.generators[0].is_async:
            fail(n, 'unsupported comprehension')
        g = n.generators[0]
        xs, tx = self.ex(g.iter)
        if not seq(tx):
            fail(g.iter, f'comprehension over a non-sequence ({tx})')
        inner = Block(self.ctx, self.env, self.depth)
        p, lets = self.bind_target(g.target, tx[1], inner)
        if '$draws_list' in self.env and isinstance(g.iter, ast.Call) and ast.unparse(g.iter.func) == 'range' and p != 'p_':
            inner.env['$draws'] = f'(draws.getD {p} [])'      # the k-th randomised run reads draws[k]
        t, ty = elt_fn(inner)
        body = ''.join(l + '; ' for l in lets) + t
        return f'({xs}.map (fun {p} => {body}))', ty

    def _ex(self, n):
        if isinstance(n, ast.Name):
            v = self.env.get(n.id)
            if isinstance(v, Var) and v.ty != NONE:
                return v.term, v.ty
            fail(n, 'unknown name (or a constant / None used as a value)')
        if isinstance(n, ast.Constant) and isinstance(n.value, int) and not isinstance(n.value, bool):
            return str(n.value), NAT
        if isinstance(n, ast.Tuple) and len(n.elts) == 2:
            (a, ta), (b, tb) = self.ex(n.elts[0]), self.ex(n.elts[1])
            return f'({a}, {b})', P(ta, tb)
        if isinstance(n, ast.List) and n.elts:
            parts = [self.ex(e) for e in n.elts]
            if any(t != parts[0][1] for _, t in parts):
                fail(n, 'list literal of mixed types')
            return '[' + ', '.join(p for p, _ in parts) + ']', L(parts[0][1])
        if isinstance(n, ast.Set) and len(n.elts) == 1:
            a, ta = self.ex(n.elts[0])
            return f'[{a}]', S(ta)
        if isinstance(n, ast.Attribute):
            return self.attribute(n)
        if isinstance(n, ast.Subscript):
            b, tb = self.ex(n.value)
            if isinstance(tb, tuple) and tb[0] == 'pair':
                if isinstance(n.slice, ast.Constant) and n.slice.value in (0, 1):
                    return f'{b}.{n.slice.value + 1}', tb[n.slice.value + 1]
                fail(n, 'pair index must be the constant 0 or 1')
            k, tk = self.ex(n.slice)
            if isinstance(tb, tuple) and tb[0] == 'dict' and tk == tb[1] and tb[2] == NAT:
                return f'(dictGet {b} {k})', NAT
            if isinstance(tb, tuple) and tb[0] == 'list' and tk == NAT:
                return f'({b}.getD {k} default)', tb[1]
            fail(n, f'unsupported subscript ({tb}[{tk}])')
        if isinstance(n, ast.Call):
            return self.call(n)
        if isinstance(n, (ast.ListComp, ast.GeneratorExp)):
            t, ty = self.comp(n, lambda inner: inner.ex(n.elt))
            return t, L(ty)
        if isinstance(n, ast.DictComp):
            def kv(inner):
                (k, tk), (v, tv) = inner.ex(n.key), inner.ex(n.value)
                return f'({k}, {v})', (tk, tv)
            t, (tk, tv) = self.comp(n, kv)
            return t, D(tk, tv)
        if isinstance(n, ast.BinOp):
            return self.binop(n)
        if isinstance(n, ast.UnaryOp) and isinstance(n.op, ast.USub):
            a, ta = self.ex(n.operand)
            if ta == NAT:
                return f'(-(Int.ofNat {a}))', INT
            if ta == INT:
                return f'(-{a})', INT
            fail(n, f'negation of {ta}')
        if isinstance(n, ast.BoolOp) and isinstance(n.op, ast.And):
            parts = [self.ex(v) for v in n.values]
            if any(t != BOOL for _, t in parts):
                fail(n, '`and` of non-booleans')
            return '(' + ' && '.join(p for p, _ in parts) + ')', BOOL
        if isinstance(n, ast.Compare) and len(n.ops) == 1:
            op = n.ops[0]
            a, ta = self.ex(n.left)
            b, tb = self.ex(n.comparators[0])
            if isinstance(op, (ast.Eq, ast.NotEq)):
                if ta != tb:
                    fail(n, f'comparison of {ta} with {tb}')
                return f'({a} {"==" if isinstance(op, ast.Eq) else "!="} {b})', BOOL
            if isinstance(op, ast.In):
                if seq(tb) and tb[1] == ta:
                    return f'({b}.contains {a})', BOOL
                fail(n, f'membership of {ta} in {tb}')
            fail(n, 'unsupported comparison')
        fail(n, 'unsupported expression')

    def attribute(self, n):
        if isinstance(n.value, ast.Name) and n.value.id == 'self':
            for f, lname, ty in FIELDS:
                if n.attr == f:
                    if lname in self.ctx.shadowed:
                        fail(n, f'self.{f} read after a local named `{lname}` was bound')
                    self.ctx.fields.add(f)
                    return lname, ty
            fail(n, 'unknown field of self')
        b, tb = self.ex(n.value)
        if tb == DOM and n.attr == 'attrs':
            return f'(Dom.attrs {b})', L(ATTR)
        if tb == L(RAT) and n.attr == 'size':
            return f'{b}.length', NAT
        fail(n, f'unknown attribute of a value of type {tb}')

    def binop(self, n):
        a, ta = self.ex(n.left)
        b, tb = self.ex(n.right)
        op = n.op
        if isinstance(op, ast.Add) and ta == tb and isinstance(ta, tuple) and ta[0] == 'list':
            return f'({a} ++ {b})', ta
        if isinstance(op, ast.Add) and ta == tb == NAT:
            return f'({a} + {b})', NAT
        if isinstance(op, ast.BitAnd) and ta == tb and isinstance(ta, tuple) and ta[0] == 'set':
            return f'(setInter {a} {b})', ta
        if isinstance(op, ast.Sub) and ta == tb and isinstance(ta, tuple) and ta[0] == 'set':
            return f'(setDiff {a} {b})', ta
        sym = {ast.Add: '+', ast.Sub: '-', ast.Div: '/'}.get(type(op))
        if sym:       # numpy: scalar / array arithmetic over Rat (int constants are promoted)
            def rat(t, ty):
                return (f'({t} : Rat)', RAT) if ty == NAT and t.isdigit() else (t, ty)
            (a, ta), (b, tb) = rat(a, ta), rat(b, tb)
            if ta == RAT and tb == L(RAT):
                return f'({b}.map (fun x => {a} {sym} x))', L(RAT)
            if ta == L(RAT) and tb == RAT:
                return f'({a}.map (fun x => x {sym} {b}))', L(RAT)
            if ta == tb == RAT:
                return f'({a} {sym} {b})', RAT
        fail(n, f'unsupported operator on {ta}, {tb}')

    def call(self, n):
        f = n.func
        src = ast.unparse(f)
        args, kws = n.args, {k.arg: k.value for k in n.keywords}
        ctx = self.ctx

        def nargs(k, kw=()):
            if len(args) != k or set(kws) != set(kw) or any(isinstance(a, ast.Starred) for a in args):
                fail(n, f'{src}: unexpected arguments')

        if src in ('tuple', 'list'):
            nargs(1)
            a, ta = self.ex(args[0])
            if isinstance(ta, tuple) and ta[0] == 'list':
                return a, ta
            if ta == S(ATTR) and src == 'tuple':
                return f'({ctx.use("tos")} {a})', L(ATTR)
            fail(n, f'{src}() of {ta}')
        if src == 'set':
            if not args and not kws:
                fail(n, 'set() needs an element type (only as an initial value or inside set.union)')
            nargs(1)
            a, ta = self.ex(args[0])
            if seq(ta):
                return f'(toSet {a})', S(ta[1])
            fail(n, f'set() of {ta}')
        if src == 'set.union':
            # set.union(set(), *map(set, xs))
            if len(args) == 2 and not kws and ast.unparse(args[0]) == 'set()' and isinstance(args[1], ast.Starred):
                m = args[1].value
                if isinstance(m, ast.Call) and ast.unparse(m.func) == 'map' and len(m.args) == 2 and ast.unparse(m.args[0]) == 'set':
                    xs, tx = self.ex(m.args[1])
                    if seq(tx) and isinstance(tx[1], tuple) and tx[1][0] == 'list':
                        return f'(setUnionAll [] ({xs}.map (fun x => toSet x)))', S(tx[1][1])
            fail(n, 'only set.union(set(), *map(set, xs)) is supported')
        if src == 'filter':
            nargs(2)
            xs, tx = self.ex(args[1])
            if not seq(tx):
                fail(n, 'filter over a non-sequence')
            fn, tr = self.lam(args[0], tx[1])
            if tr != BOOL:
                fail(n, 'filter predicate must be boolean')
            return f'({xs}.filter {fn})', L(tx[1])
        if src == 'len':
            nargs(1)
            a, ta = self.ex(args[0])
            if seq(ta):
                return f'{a}.length', NAT
            if ta == DOM:
                ctx.tr.need_domain_len()
                return f'(Dom.attrs {a}).length', NAT
            fail(n, f'len of {ta}')
        if src == 'range':
            nargs(1)
            a, ta = self.ex(args[0])
            if ta != NAT:
                fail(n, 'range of a non-number')
            return f'(List.range {a})', L(NAT)
        if src == 'sorted':
            nargs(1)
            a, ta = self.ex(args[0])
            if ta == L(CLIQUE):
                return f'(sortCliques {a})', ta
            fail(n, f'sorted of {ta}')
        if src == 'sum':
            nargs(1)
            a, ta = self.ex(args[0])
            if ta == L(NAT):
                return f'{a}.sum', NAT
            fail(n, f'sum of {ta}')
        if src == 'min':
            nargs(1, ('key',))
            a, ta = self.ex(args[0])
            if isinstance(ta, tuple) and ta[0] == 'dict':
                a, ta = f'(dictKeys {a})', L(ta[1])
            if not (isinstance(ta, tuple) and ta[0] == 'list'):
                fail(n, f'min over {ta}')
            fn, tr = self.lam(kws['key'], ta[1])
            if tr != NAT:
                fail(n, 'min key must be a number')
            return f'(pyMin {a} {fn} default)', ta[1]
        if src == 'itertools.combinations':
            nargs(2)
            if not (isinstance(args[1], ast.Constant) and args[1].value == 2):
                fail(n, 'only combinations(xs, 2)')
            a, ta = self.ex(args[0])
            if isinstance(ta, tuple) and ta[0] == 'list':
                return f'(combinations2 {a})', L(P(ta[1], ta[1]))
            fail(n, f'combinations over {ta} (iteration order unspecified)')
        if src == 'nx.Graph':
            if not args and not kws:
                return 'Graph.empty', GRAPH
            nargs(1)
            a, ta = self.ex(args[0])
            if ta == GRAPH:
                return a, GRAPH           # a copy: graphs are values
            fail(n, f'nx.Graph of {ta}')
        if src == 'nx.DiGraph':
            nargs(0)
            return 'DiGraph.empty', DIGRAPH
        if src == 'OrderedDict':
            fail(n, 'OrderedDict() needs a key type (only as an initial value)')
        for name, argty, ret in (('find_cliques', GRAPH, L(CLIQUE)), ('minimum_spanning_tree', WGRAPH, TREE),
                                 ('topological_sort', DIGRAPH, L(MSG)), ('dfs_preorder_nodes', TREE, L(CLIQUE))):
            if src == 'nx.' + name:
                nargs(1)
                a, ta = self.ex(args[0])
                if ta != argty:
                    fail(n, f'{src} of {ta}')
                return f'({ctx.use(name)} {a})', ret
        if src == 'np.array':
            nargs(1, ('dtype',))
            if ast.unparse(kws['dtype']) != 'float':
                fail(n, 'np.array: dtype must be float')
            a, ta = self.ex(args[0])
            if ta == L(NAT):
                return f'({a}.map (fun (n : Nat) => (n : Rat)))', L(RAT)
            fail(n, f'np.array of {ta}')
        if src == 'np.max':
            nargs(1)
            a, ta = self.ex(args[0])
            if ta == L(RAT):
                return f'(ratMax {a})', RAT
            fail(n, f'np.max of {ta}')
        if src == 'np.random.choice':
            fail(n, 'np.random.choice is only supported as the right-hand side of an assignment')
        if isinstance(f, ast.Attribute) and isinstance(f.value, ast.Name) and f.value.id == 'self':
            return self.selfcall(n, f.attr, args, kws)
        if isinstance(f, ast.Attribute):
            b, tb = self.ex(f.value)
            m = f.attr
            if tb == GRAPH and m == 'neighbors':
                nargs(1)
                a, ta = self.ex(args[0])
                if ta == ATTR:
                    return f'(Graph.nbrs {b} {a})', L(ATTR)
            if tb == TREE and m == 'neighbors':
                nargs(1)
                a, ta = self.ex(args[0])
                if ta == CLIQUE:
                    return f'(Tree.nbrs {b} {a})', L(CLIQUE)
            if tb == TREE and m == 'edges':
                nargs(0)
                return f'(Tree.edges {b})', L(MSG)
            if tb == DOM and m in ('project', 'canonical'):
                nargs(1)
                a, ta = self.ex(args[0])
                if ta == L(ATTR):
                    ctx.tr.need_domain_method(m)
                    return (f'(Dom.project {b} {a})', DOM) if m == 'project' else (f'(Dom.canonical {b} {a})', L(ATTR))
            if tb == DOM and m == 'size':
                nargs(0)
                ctx.tr.need_domain_method('size')
                return f'(Dom.size {b})', NAT
            if tb == L(RAT) and m == 'sum':
                nargs(0)
                return f'(ratSum {b})', RAT
            fail(n, f'unsupported method .{m} on {tb}')
        fail(n, 'unsupported call')

    def selfcall(self, n, m, args, kws):
        tr, ctx = self.ctx.tr, self.ctx
        if m == '_make_graph' and not args and not kws:
            sig = tr.sig('make_graph')
            ctx.inherit(sig)
            return sig.call([], []), sig.ret
        if m == '_triangulated' and len(args) == 1 and not kws:
            a, ta = self.ex(args[0])
            if ta != L(ATTR):
                fail(n, f'_triangulated of {ta}')
            sig = tr.sig('triangulated')
            ctx.inherit(sig)
            return sig.call([a], []), sig.ret
        if m == '_greedy_order' and not args and set(kws) == {'stochastic'} and isinstance(kws['stochastic'], ast.Constant) \
                and isinstance(kws['stochastic'].value, bool):
            if kws['stochastic'].value:
                sig = tr.sig('greedy_order_stochastic')
                ctx.inherit(sig)
                src = self.env.get('$draws')
                if src is None:
                    fail(n, 'a randomised call outside `[… for _ in range(n)]`: no source of outcomes')
                return sig.call([], [src]), sig.ret
            sig = tr.sig('greedy_order_det')
            ctx.inherit(sig)
            return sig.call([], []), sig.ret
        if m in ('mp_order', 'maximal_cliques') and not args and not kws:
            sig = tr.sig(m)
            ctx.inherit(sig)
            return sig.call([], []), sig.ret
        fail(n, 'unsupported method of self')

    # ------------------------------------------------------------ statements
    def stmts(self, body):
        for k, st in enumerate(body):
            if self.ret is not None:
                fail(st, 'statement after return')
            self.stmt(st, last=(k == len(body) - 1))

    def empty_init(self, name, value):
        src = ast.unparse(value)
        if src in ('set()', '[]', 'OrderedDict()'):
            ty = EMPTY_HINTS.get((self.ctx.fname, name))
            kind = {'set()': 'set', '[]': 'list', 'OrderedDict()': 'dict'}[src]
            if ty is None or ty[0] != kind:
                fail(value, f'no element type known for the empty {kind} `{name}`')
            return ty, '[]'
        if src == 'nx.Graph()':
            ty = GRAPH_HINTS.get((self.ctx.fname, name))
            if ty is None:
                fail(value, f'no node type known for the empty graph `{name}`')
            return ty, ty + '.empty'
        return None

    def assign(self, target, value, node):
        if isinstance(target, ast.Name):
            e0 = self.empty_init(target.id, value)
            if e0 is not None:
                self.let(target.id, e0[1], e0[0], annotate=True)
                return
            if isinstance(value, ast.Call) and ast.unparse(value.func) == 'np.random.choice':
                kws = {k.arg: k.value for k in value.keywords}
                if len(value.args) != 1 or set(kws) != {'p'}:
                    fail(value, 'expected np.random.choice(n, p=probas)')
                (a, ta), (p, tp) = self.ex(value.args[0]), self.ex(kws['p'])
                if ta != NAT or tp != L(RAT) or 'rng' not in self.env:
                    fail(value, 'np.random.choice(n, p) needs a number, an array and a source of outcomes')
                self.let(target.id, f'({self.ctx.use("choice")} {a} {p} (rng.headD 0))', NAT)
                self.lines.append(f'{self.ind()}let rng := rng.tail')
                return
            t, ty = self.ex(value)
            self.let(target.id, t, ty)
            return
        if isinstance(target, ast.Tuple) and all(isinstance(e, ast.Name) for e in target.elts):
            if isinstance(value, ast.Tuple) and len(value.elts) == len(target.elts):
                vals = [self.ex(v) for v in value.elts]         # all right-hand sides first
                for e, (t, ty) in zip(target.elts, vals):
                    self.let(e.id, t, ty)
                return
            t, ty = self.ex(value)
            if isinstance(ty, tuple) and ty[0] == 'pair' and len(target.elts) == 2:
                self.lines.append(f'{self.ind()}let p_ := {t}')
                for k, e in enumerate(target.elts):
                    self.let(e.id, f'p_.{k + 1}', ty[k + 1])
                return
        if isinstance(target, ast.Subscript) and isinstance(target.value, ast.Name):
            d = self.var(target.value)
            k, tk = self.ex(target.slice)
            v, tv = self.ex(value)
            if isinstance(d.ty, tuple) and d.ty[0] == 'dict' and (tk, tv) == (d.ty[1], d.ty[2]):
                self.let(target.value.id, f'(dictSet {d.term} {k} {v})', d.ty)
                return
        if isinstance(target, ast.Attribute) and isinstance(target.value, ast.Name) and target.value.id == 'self':
            if self.ctx.fname == '_make_tree' and target.attr == 'elimination_order':
                t, ty = self.ex(value)
                if ty != L(ATTR):
                    fail(node, f'self.elimination_order gets a value of type {ty}')
                self.ctx.tr.check_no_reader('elimination_order')      # read by graphical_model.py only: emitted as its own definition
                self.let('self_elimination_order', t, ty)
                return
        fail(node, 'unsupported assignment')

    def mutate(self, st):
        """x.method(args) as a statement: re-binds x"""
        c = st.value
        recv = c.func.value
        if not isinstance(recv, ast.Name):
            fail(st, 'unsupported statement')
        x = self.var(recv)
        m = c.func.attr
        kws = {k.arg: k.value for k in c.keywords}
        a = [self.ex(e) for e in c.args]
        T = x.ty
        new = None
        if m == 'add' and isinstance(T, tuple) and T[0] == 'set' and len(a) == 1 and not kws and a[0][1] == T[1]:
            new = f'(setAdd {x.term} {a[0][0]})'
        elif m == 'append' and isinstance(T, tuple) and T[0] == 'list' and len(a) == 1 and not kws and a[0][1] == T[1]:
            new = f'({x.term} ++ [{a[0][0]}])'
        elif m == 'remove' and isinstance(T, tuple) and T[0] == 'list' and len(a) == 1 and not kws and a[0][1] == T[1]:
            new = f'(listRemove {x.term} {a[0][0]})'
        elif m == 'add_nodes_from' and len(a) == 1 and not kws:
            if T == GRAPH and a[0][1] == L(ATTR):
                new = f'(Graph.addNodes {x.term} {a[0][0]})'
            elif T == WGRAPH and a[0][1] == L(CLIQUE):
                new = f'(WGraph.addNodes {x.term} {a[0][0]})'
            elif T == DIGRAPH and a[0][1] == L(MSG):
                new = f'(DiGraph.addNodes {x.term} {a[0][0]})'
        elif m == 'add_edges_from' and len(a) == 1 and not kws:
            if T == GRAPH and seq(a[0][1]) and a[0][1][1] == P(ATTR, ATTR):
                new = f'(Graph.addEdges {x.term} {a[0][0]})'
            elif T == DIGRAPH and seq(a[0][1]) and a[0][1][1] == P(MSG, MSG):
                new = f'(DiGraph.addEdges {x.term} {a[0][0]})'
        elif m == 'remove_node' and T == GRAPH and len(a) == 1 and not kws and a[0][1] == ATTR:
            new = f'(Graph.removeNode {x.term} {a[0][0]})'
        elif m == 'add_edge' and T == WGRAPH and len(a) == 2 and set(kws) == {'weight'} and a[0][1] == a[1][1] == CLIQUE:
            w, tw = self.ex(kws['weight'])
            if tw == NAT:
                w, tw = f'(Int.ofNat {w})', INT
            if tw == INT:
                new = f'(WGraph.addEdge {x.term} {a[0][0]} {a[1][0]} {w})'
        if new is None:
            fail(st, f'unsupported mutation of a value of type {T}')
        self.let(recv.id, new, T)

    def static_test(self, test):
        """a test decided by the variant: True / False, or None when it is a run-time test"""
        if isinstance(test, ast.Name) and isinstance(self.env.get(test.id), Const):
            return bool(self.env[test.id].value)
        src = ast.unparse(test)
        v = self.env.get('order')
        if self.ctx.fname == '_make_tree' and isinstance(v, Var) and v.ty in (NONE, NAT, L(ATTR)):
            if src == 'order is None':
                return v.ty == NONE
            if src == 'type(order) is int':
                return v.ty == NAT
        return None

    def stmt(self, st, last):
        if isinstance(st, ast.Expr) and isinstance(st.value, ast.Constant) and isinstance(st.value.value, str):
            return
        if isinstance(st, ast.Assign) and len(st.targets) == 1:
            return self.assign(st.targets[0], st.value, st)
        if isinstance(st, ast.AugAssign) and isinstance(st.target, ast.Name):
            x = self.var(st.target)
            v, tv = self.ex(st.value)
            T = x.ty
            if isinstance(st.op, ast.BitOr) and isinstance(T, tuple) and T[0] == 'set' and tv == T:
                return self.let(st.target.id, f'(setUnion {x.term} {v})', T)
            if isinstance(st.op, ast.Sub) and isinstance(T, tuple) and T[0] == 'set' and tv == T:
                return self.let(st.target.id, f'(setDiff {x.term} {v})', T)
            if isinstance(st.op, ast.Add) and T == tv == NAT:
                return self.let(st.target.id, f'({x.term} + {v})', NAT)
            if isinstance(st.op, ast.Div) and T == L(RAT) and tv == RAT:
                return self.let(st.target.id, f'({x.term}.map (fun x => x / {v}))', T)
            fail(st, f'unsupported augmented assignment on {T}, {tv}')
        if isinstance(st, ast.Expr) and isinstance(st.value, ast.Call) and isinstance(st.value.func, ast.Attribute):
            return self.mutate(st)
        if isinstance(st, ast.For) and not st.orelse:
            return self.for_(st)
        if isinstance(st, ast.If):
            return self.if_(st)
        if isinstance(st, ast.Return) and last and st.value is not None:
            self.ret = self.ex(st.value)
            return
        fail(st, 'unsupported statement')

    def state_vars(self, body):
        names = assigned_names(body)
        return [v for v in self.env if v in names and isinstance(self.env[v], Var)]

    def for_(self, st):
        for sub in ast.walk(st):
            if isinstance(sub, (ast.Break, ast.Continue, ast.Return)):
                fail(sub, 'break / continue / return inside a loop')
        xs, tx = self.ex(st.iter)
        if not seq(tx):
            fail(st.iter, f'loop over a non-sequence ({tx})')
        state = self.state_vars(st.body)
        if not state:
            fail(st, 'a loop that updates nothing')
        inner = Block(self.ctx, self.env, self.depth + 2)
        p, lets = self.bind_target(st.target, tx[1], inner)
        n = len(state)
        single = n == 1
        head = []
        if not single:
            for k, v in enumerate(state):
                head.append(f'{inner.ind()}let {self.env[v].term} := {proj(k, n)}')
        head += [inner.ind() + l for l in lets]
        inner.stmts(st.body)
        for v in state:
            if inner.env[v].ty != self.env[v].ty:
                fail(st, f'`{v}` changes type inside the loop ({self.env[v].ty} -> {inner.env[v].ty})')
        tup = lambda env: (env[state[0]].term if single else '(' + ', '.join(env[v].term for v in state) + ')')
        acc = self.env[state[0]].term if single else 's_'
        out = 's_' if not single else self.env[state[0]].term
        self.lines.append(f'{self.ind()}let {out} := {xs}.foldl (fun {acc} {p} =>')
        self.lines += head + inner.lines
        self.lines.append(f'{inner.ind()}{tup(inner.env)}) {tup(self.env)}')
        if not single:
            for k, v in enumerate(state):
                self.lines.append(f'{self.ind()}let {self.env[v].term} := {proj(k, n)}')

    def if_(self, st):
        dec = self.static_test(st.test)
        if dec is not None:
            self.stmts_inline(st.body if dec else st.orelse)
            return
        c, tc = self.ex(st.test)
        if tc != BOOL:
            fail(st.test, 'test must be boolean')
        state = self.state_vars(st.body + st.orelse)
        if not state:
            fail(st, 'a conditional that updates nothing')
        outs = []
        for body in (st.body, st.orelse):
            b = Block(self.ctx, self.env, self.depth + 2)
            b.stmts(body)
            if b.ret is not None:
                fail(st, 'return inside a conditional')
            for v in state:
                if b.env[v].ty != self.env[v].ty:
                    fail(st, f'`{v}` changes type inside the conditional')
            res = b.env[state[0]].term if len(state) == 1 else '(' + ', '.join(b.env[v].term for v in state) + ')'
            outs.append('\n'.join(b.lines + [b.ind() + res]))
        name = self.env[state[0]].term if len(state) == 1 else 's_'
        self.lines.append(f'{self.ind()}let {name} := if {c} then\n{outs[0]}\n{self.ind()}  else\n{outs[1]}')
        if len(state) > 1:
            for k, v in enumerate(state):
                self.lines.append(f'{self.ind()}let {self.env[v].term} := {proj(k, len(state))}')

    def stmts_inline(self, body):
        for st in body:
            if isinstance(st, ast.Return):
                fail(st, 'return inside a conditional')
            self.stmt(st, last=False)


class Translator:
    def __init__(self, repo):
        self.repo = repo
        src = open(os.path.join(repo, 'src', 'mbi', SRC)).read()
        tree = ast.parse(src)
        cls = next((n for n in tree.body if isinstance(n, ast.ClassDef) and n.name == 'JunctionTree'), None)
        if cls is None:
            raise Untranslatable('class JunctionTree not found')
        self.cls = cls
        self.fns = {n.name: n for n in cls.body if isinstance(n, ast.FunctionDef)}
        others = [n for n in cls.body if not isinstance(n, ast.FunctionDef)
                  and not (isinstance(n, ast.Expr) and isinstance(n.value, ast.Constant))]
        if others:
            fail(others[0], 'unexpected class-level statement')
        expected = {'__init__', 'maximal_cliques', 'mp_order', 'separator_axes', 'neighbors', '_make_graph', '_triangulated',
                    '_greedy_order', '_make_tree'}
        if set(self.fns) != expected:
            fail(cls, f'methods changed: {sorted(set(self.fns) ^ expected)}')
        for fn in self.fns.values():
            if fn.decorator_list:
                fail(fn, 'decorated method')
        self.sigs, self.out = {}, []
        self.domain_src = None

    # facts re-read from domain.py
    def domain_fn(self, name):
        if self.domain_src is None:
            t = ast.parse(open(os.path.join(self.repo, 'src', 'mbi', 'domain.py')).read())
            c = next((n for n in t.body if isinstance(n, ast.ClassDef) and n.name == 'Domain'), None)
            if c is None:
                raise Untranslatable('domain.py: class Domain not found')
            self.domain_src = {n.name: n for n in c.body if isinstance(n, ast.FunctionDef)}
        fn = self.domain_src.get(name)
        if fn is None:
            raise Untranslatable(f'domain.py: Domain.{name} not found')
        return fn

    def need_domain_len(self):
        fn = self.domain_fn('__len__')
        body = [s for s in fn.body if not (isinstance(s, ast.Expr) and isinstance(s.value, ast.Constant))]
        if not (len(body) == 1 and isinstance(body[0], ast.Return) and ast.unparse(body[0].value) == 'len(self.attrs)'):
            raise Untranslatable(f'domain.py line {fn.lineno}: Domain.__len__ is no longer len(self.attrs)')

    def need_domain_method(self, m):
        self.domain_fn(m)         # semantics: py2dom / C15G

    def check_no_reader(self, field):
        for fn in self.fns.values():
            for sub in ast.walk(fn):
                if isinstance(sub, ast.Attribute) and sub.attr == field and isinstance(sub.ctx, ast.Load) \
                        and isinstance(sub.value, ast.Name) and sub.value.id == 'self':
                    fail(sub, f'self.{field} is now read inside junction_tree.py')

    def sig(self, name):
        if name not in self.sigs:
            raise Untranslatable(f'internal: {name} used before it is translated')
        return self.sigs[name]

    def check_params(self, fn, want):
        got = [a.arg for a in fn.args.args]
        defaults = [ast.unparse(d) for d in fn.args.defaults]
        if (got, defaults) != want or fn.args.vararg or fn.args.kwarg or fn.args.kwonlyargs:
            fail(fn, f'signature changed: {got} defaults {defaults}')

    def emit(self, pyname, name, env, args, extra, doc, result=None, ret_check=None, pre=None):
        """translate method `pyname` in environment `env`; `result`: a local to return instead of the return value"""
        fn = self.fns[pyname]
        ctx = Ctx(self, pyname)
        b = Block(ctx, env, 1)
        if any(x[0] == 'rng' for x in extra):
            b.env['rng'] = Var('rng', L(NAT))
        if pre:
            pre(b)
        body = fn.body
        if result is not None:       # stop after the last top-level statement that binds the local
            idx = [k for k, st in enumerate(body) if result in assigned_names([st])]
            if not idx:
                fail(fn, f'local `{result}` not found')
            body = body[:idx[-1] + 1]
        b.stmts(body)
        if result is not None:
            v = b.env.get(result)
            if not isinstance(v, Var):
                fail(fn, f'local `{result}` not found')
            term, ty = v.term, v.ty
        else:
            if b.ret is None:
                fail(fn, 'no return value')
            term, ty = b.ret
        if ret_check is not None and ty != ret_check:
            fail(fn, f'{name}: result has type {ty}, expected {ret_check}')
        ps = [f'({c} : {t})' for c, t in CONTRACTS if c in ctx.contracts]
        ps += [f'({l} : {lty(t)})' for f, l, t in FIELDS if f in ctx.fields]
        ps += [f'({ident(a)} : {lty(t)})' for a, t in args]
        ps += [f'({a} : {lty(t)})' for a, t in extra]
        self.out.append(f'/-- `JunctionTree.{pyname}` ({SRC}:{fn.lineno}) — {doc} -/\n'
                        f'def {name} {" ".join(ps)} : {lty(ty)} :=\n' + '\n'.join(b.lines + ['  ' + term]) + '\n')
        self.sigs[name] = Sig(name, set(ctx.contracts), set(ctx.fields), args, extra, ty)
        return self.sigs[name]

    def run(self):
        F = self.fns
        self.check_params(F['_make_graph'], (['self'], []))
        self.emit('_make_graph', 'make_graph', {}, [], [], 'the graph of the cliques', ret_check=GRAPH)

        self.check_params(F['_triangulated'], (['self', 'order'], []))
        self.emit('_triangulated', 'triangulated', {'order': Var('order', L(ATTR))}, [('order', L(ATTR))], [],
                  '(tri, cost)', ret_check=P(GRAPH, NAT))

        self.check_params(F['_greedy_order'], (['self', 'stochastic'], ['True']))
        self.emit('_greedy_order', 'greedy_order_det', {'stochastic': Const(False)}, [], [],
                  'variant stochastic=False: (order, total_cost)', ret_check=P(L(ATTR), NAT))
        self.emit('_greedy_order', 'greedy_order_stochastic', {'stochastic': Const(True)}, [], [('rng', L(NAT))],
                  'variant stochastic=True; `rng` lists the outcomes of the successive `np.random.choice` calls: (order, total_cost)',
                  ret_check=P(L(ATTR), NAT))

        self.check_params(F['_make_tree'], (['self', 'order'], ['None']))
        given = {'order': Var('order', L(ATTR))}
        self.emit('_make_tree', 'make_tree_cliques', given, [('order', L(ATTR))], [],
                  'variant `order` a sequence: the local `cliques` (node list)', result='cliques', ret_check=L(CLIQUE))
        self.emit('_make_tree', 'make_tree_complete', given, [('order', L(ATTR))], [],
                  'variant `order` a sequence: the local `complete` (weighted graph handed to minimum_spanning_tree)',
                  result='complete', ret_check=WGRAPH)
        self.emit('_make_tree', 'make_tree_given', given, [('order', L(ATTR))], [],
                  'variant `order` a sequence: (spanning, order)', ret_check=P(TREE, L(ATTR)))
        self.emit('_make_tree', 'make_tree_none', {'order': Var('order', NONE)}, [], [],
                  'variant order=None: (spanning, order)', ret_check=P(TREE, L(ATTR)))

        def with_draws(b):
            b.env['$draws_list'] = 'draws'
        doc = 'the stored field `self.elimination_order` (read by graphical_model.py), variant '
        self.emit('_make_tree', 'elimination_order_given', given, [('order', L(ATTR))], [], doc + '`order` a sequence',
                  result='self_elimination_order', ret_check=L(ATTR))
        self.emit('_make_tree', 'elimination_order_none', {'order': Var('order', NONE)}, [], [], doc + 'order=None',
                  result='self_elimination_order', ret_check=L(ATTR))
        self.emit('_make_tree', 'elimination_order_int', {'order': Var('order', NAT)}, [('order', NAT)], [('draws', L(L(NAT)))],
                  doc + '`order` an int', result='self_elimination_order', ret_check=L(ATTR), pre=with_draws)
        self.emit('_make_tree', 'make_tree_int', {'order': Var('order', NAT)}, [('order', NAT)], [('draws', L(L(NAT)))],
                  'variant `order` an int; `draws[k]` lists the outcomes of `np.random.choice` inside the k-th randomised run: '
                  '(spanning, order)', ret_check=P(TREE, L(ATTR)), pre=with_draws)

        # __init__, once per form of elimination_order
        self.check_params(F['__init__'], (['self', 'domain', 'cliques', 'elimination_order'], ['None']))
        self.emit_init()

        self.check_params(F['maximal_cliques'], (['self'], []))
        self.emit('maximal_cliques', 'maximal_cliques', {}, [], [], 'the node list in depth-first preorder', ret_check=L(CLIQUE))
        self.check_params(F['mp_order'], (['self'], []))
        self.emit('mp_order', 'mp_order_messages', {}, [], [], 'the local `messages`', result='messages', ret_check=L(MSG))
        self.emit('mp_order', 'mp_order_edges', {}, [], [], 'the local `edges` (set of arcs)', result='edges', ret_check=S(P(MSG, MSG)))
        self.emit('mp_order', 'mp_order_G', {}, [], [], 'the local `G` (digraph handed to topological_sort)', result='G',
                  ret_check=DIGRAPH)
        self.emit('mp_order', 'mp_order', {}, [], [], 'the message schedule', ret_check=L(MSG))
        self.check_params(F['separator_axes'], (['self'], []))
        self.emit('separator_axes', 'separator_axes', {}, [], [], 'dict (i, j) -> separator, as an association list',
                  ret_check=D(MSG, L(ATTR)))
        self.check_params(F['neighbors'], (['self'], []))
        self.emit('neighbors', 'neighbors', {}, [], [], 'dict node -> set of tree neighbours, as an association list',
                  ret_check=D(CLIQUE, S(CLIQUE)))
        return self.out

    def emit_init(self):
        """__init__: `self.cliques = …` is translated; the other statements are field wiring, checked: every field a called
        method reads is assigned before the call, from the expected source"""
        fn = self.fns['__init__']
        body = [s for s in fn.body if not (isinstance(s, ast.Expr) and isinstance(s.value, ast.Constant))]
        reads = {}
        for name, f in self.fns.items():
            reads[name] = {sub.attr for sub in ast.walk(f) if isinstance(sub, ast.Attribute) and isinstance(sub.ctx, ast.Load)
                           and isinstance(sub.value, ast.Name) and sub.value.id == 'self' and sub.attr in [x[0] for x in FIELDS]}
        # transitive closure over self-calls
        calls = {name: {sub.func.attr for sub in ast.walk(f) if isinstance(sub, ast.Call) and isinstance(sub.func, ast.Attribute)
                        and isinstance(sub.func.value, ast.Name) and sub.func.value.id == 'self'} for name, f in self.fns.items()}
        changed = True
        while changed:
            changed = False
            for name in reads:
                for c in calls[name]:
                    if c in reads and not reads[c] <= reads[name]:
                        reads[name] |= reads[c]
                        changed = True
        for mode, oty, args, extra in (('given', L(ATTR), [('elimination_order', L(ATTR))], []),
                                       ('none', NONE, [], []),
                                       ('int', NAT, [('elimination_order', NAT)], [('draws', L(L(NAT)))])):
            ctx = Ctx(self, '__init__')
            b = Block(ctx, {'domain': Var('domain', DOM), 'cliques': Var('cliques', L(CLIQUE)),
                            'elimination_order': Var('elimination_order', oty)}, 1)
            assigned = {}
            result = None
            for st in body:
                if not (isinstance(st, ast.Assign) and len(st.targets) == 1):
                    fail(st, '__init__: unsupported statement')
                tg, val = st.targets[0], st.value
                is_self = lambda t: isinstance(t, ast.Attribute) and isinstance(t.value, ast.Name) and t.value.id == 'self'
                if is_self(tg) and tg.attr in ('cliques', 'domain'):
                    t, ty = b.ex(val)
                    want = L(CLIQUE) if tg.attr == 'cliques' else DOM
                    if ty != want:
                        fail(st, f'self.{tg.attr} gets a value of type {ty}')
                    b.lines.append(f'  let self_{tg.attr} := {t}')
                    assigned[tg.attr] = f'self_{tg.attr}'
                elif is_self(tg) and tg.attr == 'graph' and ast.unparse(val) == 'self._make_graph()':
                    if not reads['_make_graph'] <= set(assigned):
                        fail(st, f'_make_graph reads {sorted(reads["_make_graph"])} before they are assigned')
                    sig = self.sig('make_graph')
                    ctx.contracts |= sig.contracts
                    ps = [assigned[f] for f, l, _ in FIELDS if f in sig.fields]
                    b.lines.append(f'  let self_graph := ({sig.name} {" ".join(ps)})')
                    assigned['graph'] = 'self_graph'
                elif isinstance(tg, ast.Tuple) and [ast.unparse(e) for e in tg.elts] == ['self.tree', 'self.order'] \
                        and ast.unparse(val) == 'self._make_tree(elimination_order)':
                    if not reads['_make_tree'] <= set(assigned):
                        fail(st, f'_make_tree reads {sorted(reads["_make_tree"])} before they are assigned')
                    sig = self.sig('make_tree_' + mode)
                    ctx.contracts |= sig.contracts
                    ps = [c for c, _ in CONTRACTS if c in sig.contracts] + [assigned[f] for f, l, _ in FIELDS if f in sig.fields]
                    ps += [a for a, _ in args] + [a for a, _ in extra]
                    result = f'({sig.name} {" ".join(ps)})'
                    assigned['tree'] = assigned['order'] = True
                else:
                    fail(st, '__init__: unexpected statement')
            if result is None:
                fail(fn, '__init__ no longer builds the tree')
            ps = [f'({c} : {t})' for c, t in CONTRACTS if c in ctx.contracts]
            ps += ['(domain : Dom)', '(cliques : List Clique)'] + [f'({a} : {lty(t)})' for a, t in args + extra]
            self.out.append(f'/-- `JunctionTree.__init__` ({SRC}:{fn.lineno}) — `elimination_order` {mode}: (self.tree, self.order) -/\n'
                            f'def init_{mode} {" ".join(ps)} : Tree × List Attr :=\n' + '\n'.join(b.lines + ['  ' + result]) + '\n')


HEADER = '''/- GENERATED by tools/py2jt.py from src/mbi/junction_tree.py — do not edit
   One definition per method (or per variant of it) of `class JunctionTree`, translated statement by statement.
   Python sets are lists in which only membership matters (`JT.setAdd`, `toSet`, …); `tuple(set)` goes through the explicit
   iteration-order parameter `tos`; networkx / numpy.random calls are the parameters `find_cliques`, `minimum_spanning_tree`,
   `topological_sort`, `dfs_preorder_nodes`, `choice` (contracts: hypotheses of the theorems in PGM/Properties/C12G.lean). -/
import PGM.Model.JTreeNx
set_option linter.unusedVariables false
namespace PGM.JTG
open PGM PGM.JT

'''


def main():
    ap = argparse.ArgumentParser()
    ap.add_argument('--repo', default='/repo')
    ap.add_argument('--out', required=True)
    a = ap.parse_args()
    try:
        defs = Translator(a.repo).run()
    except Untranslatable as e:
        print('py2jt: source outside the translatable subset:', e)
        return 1
    os.makedirs(a.out, exist_ok=True)
    with open(os.path.join(a.out, 'JunctionTreeG.lean'), 'w') as f:
        f.write(HEADER + '\n'.join(defs) + '\nend PGM.JTG\n')
    print(f'py2jt: {len(defs)} definitions')
    return 0


if __name__ == '__main__':
    sys.exit(main())
