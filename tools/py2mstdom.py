#!/usr/bin/env python3
"""tools/py2mstdom.py --repo R --out DIR

Translates the domain-compression helpers of `mechanisms/mst.py` — `compress_domain`, `transform_data`,
`reverse_data` — and the body of `MST(...)` (which threads the compressed data, `supports` and `undo_compress_fn`
through) from the Python AST into Lean definitions over the small table model of `PGM/Model/MstDom.lean`
(`PGM/Generated/MstDomG.lean`, namespace `PGM.MstDomG`, core Lean only).  `PGM/Properties/C06D.lean` proves the
domain-conformance clause of C06 about these generated definitions.

The translation is a small typed compiler, statement by statement / expression by expression:
  * every function becomes one `def`; every `for` body becomes its own `def <fn>_body…` (a step function over the
    explicit tuple of the variables the body re-assigns; variables it only reads become parameters) and the loop a
    `List.foldl` of it; an `if` becomes an `if … then … else …` returning the tuple of variables either branch
    re-assigns; re-assignment is `let`-shadowing; an `assert` becomes a separate Boolean definition
    `<def>_assert<k>` (the condition at that program point);
  * parameter types are fixed per function (table `SIGS`); every other type is inferred.

Translatable subset (anything else exits non-zero naming the line and the construct):
  statements : `x = e`; `a, b = e1, e2`; `a, b, c = f(...)`; `d[k] = e` / `d[k] += e` (dict); `df[c] = e`;
               `df.loc[m, c] = e`; `v[-1] = e` / `v[-1] /= e`; `n += e`; `xs.append(e)`; `if/else`; `for` over a
               measurement list (4-tuple target), a domain (its attributes — re-read from `Domain.__iter__`),
               `range(n)`; `assert`; `pass`; a final `return`; `f = lambda x: e`
  expressions: names, int / integral float constants, `+ - * /`, comparisons (`>= > <= < ==`), `~mask`,
               tuples (1..n attributes = a clique; `(Q, y, sigma, proj)` = a measurement), `[e for c in domain]`,
               `.size`, `.df`, `.domain`, `.sum()`, `.copy()`, `.map(dict)`, `x[mask]`, `mask[i]`, `d[k]`, `proj[0]`,
               `arr[series]`, `df[c]`, `df.loc[m, c]`, `np.where(m)[0]`, `np.append`, `np.ones`, `np.sqrt`,
               `sparse.diags`, `int`, `np.random.choice(a, k)` (outcome parameter `choice`, draw counter `rng_`),
               `Domain.fromdict(d)` (re-read from domain.py: keys/values in insertion order),
               `Dataset(df, dom)` (re-read from dataset.py: `df.loc[:, domain.attrs]`), calls of the translated
               functions and of local lambdas
  in `MST` only, opaque calls become fields of `MstDom.Oracles` (numbered by call site): `cdp_rho`, `measure`,
               `select`, `FactoredInference(dom, iters=K)`, `.estimate(log)`, `.synthetic_data()`.
A function that draws randomness may only be called in `return` position or inside a lambda (its final draw counter
is not returned).
"""
import argparse, ast, os, sys


class Untranslatable(Exception):
    pass


def fail(node, why):
    raise Untranslatable(f'mst.py line {getattr(node, "lineno", "?")}: {why}: '
                         f'{ast.unparse(node) if isinstance(node, ast.AST) else node}')


# ---------------------------------------------------------------- types
class DictT:
    def __init__(self, k=None, v=None):
        self.k, self.v = k, v


class ListT:
    def __init__(self, e=None):
        self.e = e


class FnT:
    def __init__(self, args, ret, draws=False):
        self.args, self.ret, self.draws = args, ret, draws


class TupleT:
    def __init__(self, elems):
        self.elems = elems


BASE = {'scalar': 'α', 'nat': 'Nat', 'int': 'Int', 'bool': 'Bool', 'attr': 'Attr', 'proj': 'List Attr', 'vec': 'List α',
        'mask': 'List Bool', 'natarr': 'List Nat', 'series': 'List Cell', 'frame': 'Frame', 'ds': 'DS', 'dom': 'Dom',
        'Q': 'κ', 'meas': 'Meas α κ', 'engine': 'ε', 'model': 'μ',
        'choice': 'Nat → List Nat → Nat → List Nat', 'oracles': 'Oracles α κ ε μ'}


def lt(t):
    """Lean type of a translator type"""
    if isinstance(t, str):
        return BASE[t]
    if isinstance(t, DictT):
        if t.k is None or t.v is None:
            raise Untranslatable('a dict that is never written: its type cannot be inferred')
        return f'List ({lt(t.k)} × {lt(t.v)})'
    if isinstance(t, ListT):
        if t.e is None:
            raise Untranslatable('a list that is never appended to: its type cannot be inferred')
        return f'List ({lt(t.e)})'
    if isinstance(t, FnT):
        return '(' + ' → '.join([lt(a) for a in t.args] + [lt(t.ret)]) + ')'
    if isinstance(t, TupleT):
        return '(' + ' × '.join(lt(e) for e in t.elems) + ')'
    raise Untranslatable(f'unknown type {t}')


def same(a, b):
    if isinstance(a, str) or isinstance(b, str):
        if isinstance(a, ListT) and b == 'proj':
            return a.e == 'attr'
        if isinstance(b, ListT) and a == 'proj':
            return b.e == 'attr'
        if isinstance(a, DictT) and b == 'dom':
            return a.k == 'attr' and a.v == 'nat'
        if isinstance(b, DictT) and a == 'dom':
            return b.k == 'attr' and b.v == 'nat'
        return a == b
    if type(a) is not type(b):
        return False
    if isinstance(a, DictT):
        return same(a.k, b.k) and same(a.v, b.v)
    if isinstance(a, ListT):
        return same(a.e, b.e)
    if isinstance(a, TupleT):
        return len(a.elems) == len(b.elems) and all(same(x, y) for x, y in zip(a.elems, b.elems))
    if isinstance(a, FnT):
        return same(a.ret, b.ret) and len(a.args) == len(b.args) and all(same(x, y) for x, y in zip(a.args, b.args))
    return False


def proj_n(term, i, n):
    """i-th component of an n-tuple (right-nested pairs)"""
    if n == 1:
        return term
    s = term + '.2' * i
    return s + ('.1' if i < n - 1 else '')


SIGS = {
    'compress_domain': [('data', 'ds'), ('measurements', ListT('meas'))],
    'transform_data': [('data', 'ds'), ('supports', DictT('attr', 'mask'))],
    'reverse_data': [('data', 'ds'), ('supports', DictT('attr', 'mask'))],
    'MST': [('data', 'ds'), ('epsilon', 'scalar'), ('delta', 'scalar')],
}
ORDER = ['transform_data', 'reverse_data', 'compress_domain', 'MST']
RESERVED = {'from', 'at', 'end', 'fun', 'let', 'in', 'do', 'then', 'else', 'if', 'match', 'with', 'where', 'variables',
            'st_', 'x_', 'v_', 'r_', 'rng_', 'choice', 'O', 'open', 'instance', 'class', 'structure', 'def', 'theorem'}


INTERNAL = ('st_', 'x_', 'v_', 'r_', 'rng_', 'choice', 'O')


def nm(x):
    return x + "'" if (x in RESERVED and x not in INTERNAL) else x


def walk_no_lambda(node):
    yield node
    for c in ast.iter_child_nodes(node):
        if not isinstance(c, ast.Lambda):
            yield from walk_no_lambda(c)


def uses_random_node(node, rnd_fns, skip_lambda=False):
    """does evaluating `node` draw randomness (skip_lambda: bodies of lambdas are only built, not run)"""
    for n in (walk_no_lambda(node) if skip_lambda else ast.walk(node)):
        if isinstance(n, ast.Call):
            f = ast.unparse(n.func)
            if f.startswith('np.random.') or f.startswith('prng.') or f in rnd_fns:
                return True
    return False


def assigned(stmts, rnd_fns):
    """names (re-)assigned by a statement list, in order of first appearance; 'rng_' when randomness is drawn"""
    out = []

    def add(x):
        if x not in out:
            out.append(x)

    def base(t):
        if isinstance(t, ast.Name):
            add(t.id)
        elif isinstance(t, ast.Subscript):
            v = t.value
            if isinstance(v, ast.Attribute) and v.attr in ('loc', 'iloc', 'at'):
                v = v.value
            base(v)
        elif isinstance(t, (ast.Tuple, ast.List)):
            for e in t.elts:
                base(e)
        else:
            fail(t, 'unsupported assignment target')

    for s in stmts:
        if isinstance(s, ast.Assign):
            for t in s.targets:
                base(t)
        elif isinstance(s, ast.AugAssign):
            base(s.target)
        elif isinstance(s, ast.Expr) and isinstance(s.value, ast.Call) and isinstance(s.value.func, ast.Attribute) \
                and s.value.func.attr == 'append' and isinstance(s.value.func.value, ast.Name):
            add(s.value.func.value.id)
        elif isinstance(s, ast.If):
            for x in assigned(s.body, rnd_fns) + assigned(s.orelse, rnd_fns):
                add(x)
        elif isinstance(s, ast.For):
            base(s.target)
            for x in assigned(s.body, rnd_fns):
                add(x)
        if not isinstance(s, (ast.If, ast.For)) and uses_random_node(s, rnd_fns, True):
            add('rng_')
    return out


class Fn:
    """compiler for one function"""

    def __init__(self, mod, name, fnode):
        self.mod, self.name, self.fnode = mod, name, fnode
        self.nloops = {}
        self.site = 0

    # ---------------------------------------------------------- expressions
    def to_scalar(self, term, ty, node):
        if ty == 'scalar':
            return term
        if ty == 'nat':
            return f'(MScalar.ofInt (({term} : Nat) : Int))'
        if ty == 'int':
            return f'(MScalar.ofInt {term})'
        fail(node, 'not a number')

    def to_int(self, term, ty, node):
        if ty == 'int':
            return term
        if ty == 'nat':
            return f'(({term} : Nat) : Int)'
        fail(node, 'not an integer')

    def expr(self, n, env, post=None):
        """-> (lean term, type).  `post`: list collecting let-lines to run after the statement (draw counter)"""
        E = lambda x: self.expr(x, env, post)
        if isinstance(n, ast.Name):
            if n.id not in env:
                fail(n, f'unknown variable {n.id} (not defined on this path, or defined only inside a branch/loop)')
            return nm(n.id), env[n.id]
        if isinstance(n, ast.Constant):
            v = n.value
            if isinstance(v, bool):
                return ('true' if v else 'false'), 'bool'
            if isinstance(v, int) and v >= 0:
                return str(v), 'nat'
            if isinstance(v, float) and v == int(v) and v >= 0:
                return f'(MScalar.ofInt {int(v)})', 'scalar'
            fail(n, 'unsupported constant')
        if isinstance(n, ast.BinOp):
            a, ta = E(n.left)
            b, tb = E(n.right)
            op = type(n.op)
            if isinstance(ta, ListT) and isinstance(tb, ListT) and op is ast.Add and same(ta, tb):
                return f'({a} ++ {b})', ta
            num = ('nat', 'int', 'scalar')
            if ta not in num or tb not in num:
                fail(n, 'arithmetic on non-numbers')
            if op is ast.Div or 'scalar' in (ta, tb):
                f = {ast.Add: 'add', ast.Sub: 'sub', ast.Mult: 'mul', ast.Div: 'div'}.get(op) or fail(n, 'unsupported operator')
                return f'(MScalar.{f} {self.to_scalar(a, ta, n)} {self.to_scalar(b, tb, n)})', 'scalar'
            o = {ast.Add: '+', ast.Sub: '-', ast.Mult: '*'}.get(op) or fail(n, 'unsupported operator')
            if ta == 'nat' and tb == 'nat' and op is not ast.Sub:
                return f'({a} {o} {b})', 'nat'
            return f'({self.to_int(a, ta, n)} {o} {self.to_int(b, tb, n)})', 'int'
        if isinstance(n, ast.UnaryOp) and isinstance(n.op, ast.Invert):
            a, ta = E(n.operand)
            if ta != 'mask':
                fail(n, '~ of a non-mask')
            return f'(maskNot {a})', 'mask'
        if isinstance(n, ast.Compare):
            if len(n.ops) != 1:
                fail(n, 'chained comparison')
            a, ta = E(n.left)
            b, tb = E(n.comparators[0])
            op = type(n.ops[0])
            sc = {ast.GtE: 'ge', ast.Gt: 'gt', ast.LtE: 'le', ast.Lt: 'lt'}
            if ta == 'vec' and tb in ('scalar', 'nat', 'int') and op in sc:
                return f'({a}.map (fun v_ => MScalar.{sc[op]} v_ {self.to_scalar(b, tb, n)}))', 'mask'
            if ta == 'series' and tb == 'nat' and op is ast.Eq:
                return f'(seriesEq {a} {b})', 'mask'
            if 'scalar' in (ta, tb) and op in sc and ta in ('scalar', 'nat', 'int') and tb in ('scalar', 'nat', 'int'):
                return f'(MScalar.{sc[op]} {self.to_scalar(a, ta, n)} {self.to_scalar(b, tb, n)})', 'bool'
            rel = {ast.Eq: '=', ast.NotEq: '≠', ast.Lt: '<', ast.LtE: '≤', ast.Gt: '>', ast.GtE: '≥'}.get(op) or fail(n, 'unsupported comparison')
            if ta == 'nat' and tb == 'nat':
                return f'(decide ({a} {rel} {b}))', 'bool'
            if ta in ('nat', 'int') and tb in ('nat', 'int'):
                return f'(decide ({self.to_int(a, ta, n)} {rel} {self.to_int(b, tb, n)}))', 'bool'
            fail(n, 'unsupported comparison')
        if isinstance(n, ast.Tuple):
            parts = [E(e) for e in n.elts]
            tys = [t for _, t in parts]
            if tys and all(t == 'attr' for t in tys):
                return '[' + ', '.join(p for p, _ in parts) + ']', 'proj'
            if tys == ['Q', 'vec', 'scalar', 'proj']:
                return '((' + ', '.join(p for p, _ in parts) + ') : Meas α κ)', 'meas'
            return '(' + ', '.join(p for p, _ in parts) + ')', TupleT(tys)
        if isinstance(n, ast.ListComp):
            if len(n.generators) != 1 or n.generators[0].ifs or not isinstance(n.generators[0].target, ast.Name):
                fail(n, 'unsupported comprehension')
            it, et = self.iterable(n.generators[0].iter, env)
            v = n.generators[0].target.id
            env2 = dict(env)
            env2[v] = et
            body, bt = self.expr(n.elt, env2, post)
            return f'({it}.map (fun {nm(v)} => {body}))', ListT(bt)
        if isinstance(n, ast.Lambda):
            if len(n.args.args) != 1:
                fail(n, 'lambda must take one argument')
            p = n.args.args[0].arg
            for cand in ('ds', 'scalar', 'nat'):
                env2 = dict(env)
                env2[p] = cand
                try:
                    body, bt = self.expr(n.body, env2, None)
                except Untranslatable:
                    continue
                return f'(fun ({nm(p)} : {lt(cand)}) => {body})', FnT([cand], bt, uses_random_node(n.body, self.mod.draw_fns))
            fail(n, 'lambda body outside the translatable subset')
        if isinstance(n, ast.Attribute):
            a, ta = E(n.value)
            if n.attr == 'size' and ta in ('vec', 'mask', 'natarr', 'series'):
                return f'{a}.length', 'nat'
            if n.attr == 'df' and ta == 'ds':
                return f'{a}.df', 'frame'
            if n.attr == 'domain' and ta == 'ds':
                return f'{a}.domain', 'dom'
            if n.attr == 'attrs' and ta == 'dom':
                return f'(Dom.attrs {a})', 'proj'
            fail(n, f'unsupported attribute of a {ta if isinstance(ta, str) else type(ta).__name__}')
        if isinstance(n, ast.Subscript):
            return self.subscript(n, env, post)
        if isinstance(n, ast.Call):
            return self.call(n, env, post)
        fail(n, 'unsupported expression')

    def is_minus_one(self, s):
        return isinstance(s, ast.UnaryOp) and isinstance(s.op, ast.USub) and isinstance(s.operand, ast.Constant) and s.operand.value == 1

    def loc_parts(self, n, env, post):
        """`X.loc[m, c]` -> (X term, m term, c term) or None"""
        if isinstance(n.value, ast.Attribute) and n.value.attr == 'loc':
            if not (isinstance(n.slice, ast.Tuple) and len(n.slice.elts) == 2):
                fail(n, '.loc needs [mask, column]')
            x, tx = self.expr(n.value.value, env, post)
            m, tm = self.expr(n.slice.elts[0], env, post)
            c, tc = self.expr(n.slice.elts[1], env, post)
            if tx != 'frame' or tm != 'mask' or tc != 'attr':
                fail(n, '.loc[mask, column] of a frame expected')
            return x, m, c
        return None

    def subscript(self, n, env, post):
        lp = self.loc_parts(n, env, post)
        if lp:
            return f'(Frame.locGet {lp[0]} {lp[1]} {lp[2]})', 'series'
        if isinstance(n.value, ast.Call) and ast.unparse(n.value.func) == 'np.where':
            if not (isinstance(n.slice, ast.Constant) and n.slice.value == 0 and len(n.value.args) == 1 and not n.value.keywords):
                fail(n, 'np.where(mask)[0] expected')
            m, tm = self.expr(n.value.args[0], env, post)
            if tm != 'mask':
                fail(n, 'np.where of a non-mask')
            return f'(npWhere {m})', 'natarr'
        a, ta = self.expr(n.value, env, post)
        if ta == 'proj' and isinstance(n.slice, ast.Constant) and isinstance(n.slice.value, int) and n.slice.value >= 0:
            return f'({a}.getD {n.slice.value} "")', 'attr'
        i, ti = self.expr(n.slice, env, post)
        if ta == 'vec' and ti == 'mask':
            return f'(maskSelect {a} {i})', 'vec'
        if ta == 'mask' and ti == 'nat':
            return f'(maskAt {a} {i})', 'bool'
        if isinstance(ta, DictT):
            if ta.k is None or not same(ta.k, ti):
                fail(n, 'dict read with a key of the wrong type (or before any write)')
            return f'(dictGet {a} {i})', ta.v
        if ta == 'natarr' and ti == 'series':
            return f'(takeCells {a} {i})', 'series'
        if ta == 'frame' and ti == 'attr':
            return f'(Frame.get {a} {i})', 'series'
        fail(n, 'unsupported subscript')

    def call(self, n, env, post):
        E = lambda x: self.expr(x, env, post)
        f = ast.unparse(n.func)
        args = n.args
        kw = {k.arg: k.value for k in n.keywords}

        def want(k):
            if len(args) != k or kw:
                fail(n, f'{f}: {k} positional arguments expected')
            return [E(x) for x in args]

        if f == 'np.append':
            (a, ta), (b, tb) = want(2)
            if ta != 'vec':
                fail(n, 'np.append(vector, scalar) expected')
            return f'({a} ++ [{self.to_scalar(b, tb, n)}])', 'vec'
        if f == 'np.ones':
            (a, ta), = want(1)
            if ta != 'nat':
                fail(n, 'np.ones(n) expected')
            return f'((npOnes {a} : List α))', 'vec'
        if f == 'np.sqrt':
            (a, ta), = want(1)
            return f'(MScalar.sqrt {self.to_scalar(a, ta, n)})', 'scalar'
        if f == 'sparse.diags':
            (a, ta), = want(1)
            if ta != 'vec':
                fail(n, 'sparse.diags(vector) expected')
            return f'((QMat.diags {a} : κ))', 'Q'
        if f == 'int':
            (a, ta), = want(1)
            if ta != 'nat':
                fail(n, 'int() of a non-negative integer expected')
            return a, 'nat'
        if f == 'np.random.choice':
            (a, ta), (k, tk) = want(2)
            if ta != 'natarr' or tk != 'nat' or post is None or 'rng_' not in env:
                fail(n, 'np.random.choice(int array, count) in statement position expected')
            post.append("let rng_ := rng_ + 1")
            return f'(choice rng_ {a} {k})', 'natarr'
        if f.startswith('np.random.') or f.startswith('prng.'):
            fail(n, 'unsupported random call')
        if f == 'Domain.fromdict':
            (a, ta), = want(1)
            if not (isinstance(ta, DictT) and ta.k == 'attr' and ta.v == 'nat'):
                fail(n, 'Domain.fromdict of a dict attribute -> size expected')
            return a, 'dom'
        if f == 'Dataset':
            (a, ta), (b, tb) = want(2)
            if ta != 'frame' or tb != 'dom':
                fail(n, 'Dataset(frame, domain) expected')
            return f'(mkDataset {a} {b})', 'ds'
        if isinstance(n.func, ast.Name) and f in self.mod.sigs_done:
            sig, ret, rnd = self.mod.sigs_done[f]
            parts = want(len(sig))
            for (p, tp), (_, ts) in zip(parts, sig):
                if not same(tp, ts):
                    fail(n, f'argument of {f} has the wrong type')
            pre = ''
            if rnd:
                if 'rng_' not in env:
                    fail(n, f'{f} draws randomness here')
                if post is not None and f in self.mod.draw_fns:
                    post.append('!random-call')
                pre = 'choice rng_ '
            return f'({f} {pre}' + ' '.join(p for p, _ in parts) + ')', ret
        if isinstance(n.func, ast.Name) and f in env and isinstance(env[f], FnT):
            parts = want(len(env[f].args))
            for (p, tp), ts in zip(parts, env[f].args):
                if not same(tp, ts):
                    fail(n, f'argument of {f} has the wrong type')
            if env[f].draws and post is not None:
                post.append('!random-call')
            return f'({nm(f)} ' + ' '.join(p for p, _ in parts) + ')', env[f].ret
        if isinstance(n.func, ast.Attribute):
            meth = n.func.attr
            # opaque method calls (MST)
            if self.name == 'MST' and meth in ('estimate', 'synthetic_data'):
                o, to = E(n.func.value)
                if meth == 'estimate' and to == 'engine':
                    (a, ta), = want(1)
                    if not same(ta, ListT('meas')):
                        fail(n, 'estimate(list of measurements) expected')
                    self.site += 1
                    return f'(O.estimate {self.site} {o} {a})', 'model'
                if meth == 'synthetic_data' and to == 'model':
                    want(0)
                    self.site += 1
                    return f'(O.synthetic_data {self.site} {o})', 'ds'
                fail(n, 'unsupported opaque method call')
            o, to = E(n.func.value)
            if meth == 'sum' and not args and not kw:
                if to == 'mask':
                    return f'(maskSum {o})', 'nat'
                if to == 'vec':
                    return f'(vsum {o})', 'scalar'
            if meth == 'copy' and not args and not kw and to == 'frame':
                return o, 'frame'
            if meth == 'map' and to == 'series':
                (a, ta), = want(1)
                if not (isinstance(ta, DictT) and ta.k == 'nat' and ta.v == 'nat'):
                    fail(n, 'Series.map(dict code -> code) expected')
                return f'(seriesMap {o} {a})', 'series'
            fail(n, 'unsupported method call')
        if self.name == 'MST' and isinstance(n.func, ast.Name):
            if f == 'cdp_rho':
                (a, ta), (b, tb) = want(2)
                return f'(O.cdp_rho {self.to_scalar(a, ta, n)} {self.to_scalar(b, tb, n)})', 'scalar'
            if f == 'measure':
                (a, ta), (b, tb), (c, tc) = want(3)
                if ta != 'ds' or not same(tb, ListT('proj')) or tc != 'scalar':
                    fail(n, 'measure(data, cliques, sigma) expected')
                self.site += 1
                return f'(O.measure {self.site} {a} {b} {c})', ListT('meas')
            if f == 'select':
                (a, ta), (b, tb), (c, tc) = want(3)
                if ta != 'ds' or not same(tc, ListT('meas')):
                    fail(n, 'select(data, rho, log) expected')
                self.site += 1
                return f'(O.select {self.site} {a} {self.to_scalar(b, tb, n)} {c})', ListT('proj')
            if f == 'FactoredInference':
                if len(args) != 1 or set(kw) != {'iters'}:
                    fail(n, 'FactoredInference(domain, iters=K) expected')
                a, ta = E(args[0])
                k, tk = E(kw['iters'])
                if ta != 'dom' or tk != 'nat':
                    fail(n, 'FactoredInference(domain, iters=K) expected')
                return f'(O.FactoredInference {a} {k})', 'engine'
        fail(n, 'unsupported call')

    def iterable(self, n, env):
        if isinstance(n, ast.Call) and isinstance(n.func, ast.Name) and n.func.id == 'range' and not n.keywords:
            parts = [self.expr(a, env) for a in n.args]
            if any(t != 'nat' for _, t in parts):
                fail(n, 'range of non-negative integers expected')
            if len(parts) == 1:
                return f'(List.range {parts[0][0]})', 'nat'
            if len(parts) == 2:
                return f"(List.range' {parts[0][0]} ({parts[1][0]} - {parts[0][0]}))", 'nat'
            fail(n, 'range with a step')
        a, ta = self.expr(n, env)
        if ta == 'dom':
            return f'(Dom.attrs {a})', 'attr'          # Domain.__iter__ (checked in domain.py)
        if ta == 'proj':
            return a, 'attr'
        if isinstance(ta, ListT) and ta.e is not None:
            return a, ta.e
        fail(n, 'unsupported iterable')

    # ---------------------------------------------------------- statements
    def block(self, stmts, env, lines, defname, params, top):
        """compile statements, appending let-lines; returns the return term (or None).  `env` is updated in place."""
        ret = None
        nassert = 0
        for k, s in enumerate(stmts):
            if ret is not None:
                fail(s, 'statement after return')
            post = []
            if isinstance(s, ast.Expr) and isinstance(s.value, ast.Constant):
                continue
            if isinstance(s, ast.Pass):
                continue
            if isinstance(s, ast.Return):
                if not top or s.value is None:
                    fail(s, 'return is only supported as the last statement of a function')
                term, ty = self.expr(s.value, env, post)
                post[:] = [p for p in post if p != '!random-call']
                ret = (term, ty)
                continue
            if isinstance(s, ast.Assert):
                if not top:
                    fail(s, 'assert inside a branch')
                c, tc = self.expr(s.test, env, None)
                if tc != 'bool':
                    fail(s, 'assert of a non-Boolean')
                nassert += 1
                self.mod.emit_def(f'{defname}_assert{nassert}', params, 'Bool', list(lines), c,
                                  f'the condition of `{ast.unparse(s)}` (line {s.lineno}) at that point of `{defname}`')
                continue
            if isinstance(s, ast.Assign):
                if len(s.targets) != 1:
                    fail(s, 'chained assignment')
                self.assign(s.targets[0], s.value, env, lines, post, s)
            elif isinstance(s, ast.AugAssign):
                self.augassign(s, env, lines, post)
            elif isinstance(s, ast.Expr):
                c = s.value
                if isinstance(c, ast.Call) and isinstance(c.func, ast.Attribute) and c.func.attr == 'append' \
                        and isinstance(c.func.value, ast.Name) and len(c.args) == 1 and not c.keywords:
                    x = c.func.value.id
                    if x not in env or not isinstance(env[x], ListT):
                        fail(s, 'append to a non-list')
                    e, te = self.expr(c.args[0], env, post)
                    if env[x].e is None:
                        env[x].e = te
                    elif not same(env[x].e, te):
                        fail(s, 'append of an element of another type')
                    lines.append(f'let {nm(x)} := {nm(x)} ++ [{e}]')
                else:
                    fail(s, 'unsupported expression statement')
            elif isinstance(s, ast.If):
                self.ifstmt(s, env, lines, defname)
            elif isinstance(s, ast.For):
                self.forstmt(s, env, lines, defname)
            else:
                fail(s, 'unsupported statement')
            if '!random-call' in post:
                fail(s, 'a function that draws randomness is called outside return position / a lambda')
            lines.extend(post)
        return ret

    def assign(self, tgt, val, env, lines, post, s):
        if isinstance(tgt, ast.Name):
            if isinstance(val, ast.Dict) and not val.keys:
                t = DictT()
                env[tgt.id] = t
                lines.append(lambda t=t, x=tgt.id: f'let {nm(x)} : {lt(t)} := []')
                return
            if isinstance(val, ast.List) and not val.elts:
                t = ListT()
                env[tgt.id] = t
                lines.append(lambda t=t, x=tgt.id: f'let {nm(x)} : {lt(t)} := []')
                return
            e, te = self.expr(val, env, post)
            lines.append(f'let {nm(tgt.id)} := {e}')
            env[tgt.id] = te
            return
        if isinstance(tgt, ast.Tuple):
            names = []
            for t in tgt.elts:
                if not isinstance(t, ast.Name):
                    fail(s, 'unsupported unpacking target')
                names.append(t.id)
            if isinstance(val, ast.Tuple):
                if len(val.elts) != len(names):
                    fail(s, 'unpacking arity')
                used = {x.id for v in val.elts for x in ast.walk(v) if isinstance(x, ast.Name)}
                if used & set(names):
                    fail(s, 'parallel assignment reading its own targets')
                for x, v in zip(names, val.elts):
                    e, te = self.expr(v, env, post)
                    lines.append(f'let {nm(x)} := {e}')
                    env[x] = te
                return
            e, te = self.expr(val, env, post)
            if not (isinstance(te, TupleT) and len(te.elems) == len(names)):
                fail(s, 'unpacking of a non-tuple / wrong arity')
            lines.append(f'let r_ := {e}')
            for i, (x, t) in enumerate(zip(names, te.elems)):
                lines.append(f'let {nm(x)} := {proj_n("r_", i, len(names))}')
                env[x] = t
            return
        if isinstance(tgt, ast.Subscript):
            lp = self.loc_parts(tgt, env, post)
            if lp:
                if not isinstance(tgt.value.value, ast.Name):
                    fail(s, '.loc assignment to a non-variable')
                x = tgt.value.value.id
                e, te = self.expr(val, env, post)
                if te == 'natarr':
                    e = f'(natsToCells {e})'
                elif te != 'series':
                    fail(s, '.loc assignment of a non-column')
                lines.append(f'let {nm(x)} := Frame.locSet {lp[0]} {lp[1]} {lp[2]} {e}')
                return
            if not isinstance(tgt.value, ast.Name):
                fail(s, 'unsupported subscript target')
            x = tgt.value.id
            if x not in env:
                fail(s, f'unknown variable {x}')
            tx = env[x]
            if tx == 'vec' and self.is_minus_one(tgt.slice):
                e, te = self.expr(val, env, post)
                lines.append(f'let {nm(x)} := updLast {nm(x)} (fun _ => {self.to_scalar(e, te, s)})')
                return
            k, tk = self.expr(tgt.slice, env, post)
            e, te = self.expr(val, env, post)
            if isinstance(tx, DictT):
                if tx.k is None:
                    tx.k, tx.v = tk, te
                elif not (same(tx.k, tk) and same(tx.v, te)):
                    fail(s, 'dict write with another key/value type')
                lines.append(f'let {nm(x)} := dictSet {nm(x)} {k} {e}')
                return
            if tx == 'frame' and tk == 'attr' and te == 'series':
                lines.append(f'let {nm(x)} := Frame.set {nm(x)} {k} {e}')
                return
        fail(s, 'unsupported assignment')

    def augassign(self, s, env, lines, post):
        op = type(s.op)
        tgt = s.target
        if isinstance(tgt, ast.Name):
            cur = ast.Name(id=tgt.id, ctx=ast.Load())
            e, te = self.expr(ast.copy_location(ast.BinOp(left=cur, op=s.op, right=s.value), s), env, post)
            if not same(te, env.get(tgt.id)):
                fail(s, 'augmented assignment changes the type')
            lines.append(f'let {nm(tgt.id)} := {e}')
            return
        if isinstance(tgt, ast.Subscript) and isinstance(tgt.value, ast.Name) and tgt.value.id in env:
            x = tgt.value.id
            tx = env[x]
            if tx == 'vec' and self.is_minus_one(tgt.slice):
                f = {ast.Add: 'add', ast.Sub: 'sub', ast.Mult: 'mul', ast.Div: 'div'}.get(op) or fail(s, 'unsupported operator')
                e, te = self.expr(s.value, env, post)
                lines.append(f'let {nm(x)} := updLast {nm(x)} (fun v_ => MScalar.{f} v_ {self.to_scalar(e, te, s)})')
                return
            if isinstance(tx, DictT) and tx.k is not None:
                k, tk = self.expr(tgt.slice, env, post)
                if not same(tk, tx.k):
                    fail(s, 'dict key of another type')
                load = ast.copy_location(ast.Subscript(value=tgt.value, slice=tgt.slice, ctx=ast.Load()), s)
                e, te = self.expr(ast.copy_location(ast.BinOp(left=load, op=s.op, right=s.value), s), env, post)
                if not same(te, tx.v):
                    fail(s, 'augmented assignment changes the type')
                lines.append(f'let {nm(x)} := dictSet {nm(x)} {k} {e}')
                return
        fail(s, 'unsupported augmented assignment')

    @staticmethod
    def tuple_term(names):
        return names[0] if len(names) == 1 else '(' + ', '.join(names) + ')'

    def ifstmt(self, s, env, lines, defname):
        c, tc = self.expr(s.test, env, None)
        if tc != 'bool':
            fail(s, 'condition is not a Boolean')
        mods = [v for v in assigned(s.body, self.mod.rnd_fns) + assigned(s.orelse, self.mod.rnd_fns)]
        mods = [v for i, v in enumerate(mods) if v in env and v not in mods[:i]]
        if not mods:
            fail(s, 'an if that changes nothing visible afterwards')
        res = self.tuple_term([nm(v) for v in mods])
        branches = []
        for body in (s.body, s.orelse):
            env2 = dict(env)
            bl = []
            if self.block(body, env2, bl, defname, None, False) is not None:
                fail(s, 'return inside a branch')
            for v in mods:
                if not same(env2[v], env[v]):
                    fail(s, f'{v} changes its type inside a branch')
            branches.append(bl)
        lines.append(('if', self.tuple_pat(mods), c, branches[0], branches[1], res, mods))

    def tuple_pat(self, mods):
        return nm(mods[0]) if len(mods) == 1 else 'r_'

    def forstmt(self, s, env, lines, defname):
        if s.orelse:
            fail(s, 'for/else')
        it, et = self.iterable(s.iter, env)
        k = self.nloops.get(defname, 0) + 1
        self.nloops[defname] = k
        stepname = f'{defname}_body' + (str(k) if k > 1 else '')
        state = [v for v in assigned(s.body, self.mod.rnd_fns)]
        # loop targets
        tnames = []
        if isinstance(s.target, ast.Name):
            tnames = [s.target.id]
        elif isinstance(s.target, ast.Tuple) and all(isinstance(e, ast.Name) for e in s.target.elts):
            tnames = [e.id for e in s.target.elts]
        else:
            fail(s, 'unsupported loop target')
        state = [v for v in state if v in env and v not in tnames]
        if not state:
            fail(s, 'a loop that changes nothing visible afterwards')
        used = {x.id for b in s.body for x in ast.walk(b) if isinstance(x, ast.Name)}
        free = [v for v in env if v in used and v not in state and v not in tnames and v not in ('choice',)]
        if any(uses_random_node(b, self.mod.rnd_fns) for b in s.body):
            free = ['choice'] + free
            if 'rng_' not in state:
                free.insert(1, 'rng_')
        env2 = dict(env)
        body_lines = []
        n = len(state)
        if n > 1:
            for i, v in enumerate(state):
                body_lines.append(f'let {nm(v)} := {proj_n("st_", i, n)}')
        if len(tnames) == 1:
            env2[tnames[0]] = et
            xname = nm(tnames[0])
        else:
            if et != 'meas' or len(tnames) != 4:
                fail(s, 'tuple loop target over a non-measurement list')
            xname = 'x_'
            for i, (v, t) in enumerate(zip(tnames, ['Q', 'vec', 'scalar', 'proj'])):
                body_lines.append(f'let {nm(v)} := {proj_n("x_", i, 4)}')
                env2[v] = t
        stname = nm(state[0]) if n == 1 else 'st_'
        params = [(nm(v), env[v]) for v in free] + [(stname, None), (xname, et)]
        before = {v: env[v] for v in state}
        if self.block(s.body, env2, body_lines, stepname, params, True) is not None:
            fail(s, 'return inside a loop')
        for v in state:
            if not same(env2[v], before[v]):
                fail(s, f'{v} changes its type inside the loop')
        sty = before[state[0]] if n == 1 else TupleT([before[v] for v in state])
        params[len(free)] = (stname, sty)
        self.mod.emit_def(stepname, params, sty, body_lines, self.tuple_term([nm(v) for v in state]),
                          f'the body of the `for {ast.unparse(s.target)} in {ast.unparse(s.iter)}` loop (line {s.lineno}) '
                          f'over the state ({", ".join(state)})', patch_assert=True)
        call = f'List.foldl ({stepname} ' + ' '.join(nm(v) for v in free) + f') {self.tuple_term([nm(v) for v in state])} {it}'
        call = call.replace(f'({stepname} )', stepname)
        if n == 1:
            lines.append(f'let {nm(state[0])} := {call}')
        else:
            lines.append(f'let r_ := {call}')
            for i, v in enumerate(state):
                lines.append(f'let {nm(v)} := {proj_n("r_", i, n)}')


def render(lines, result, ind):
    """let-lines + result -> multi-line Lean term text (each line indented by `ind`)"""
    out = []
    pad = ' ' * ind
    for l in lines:
        if callable(l):
            l = l()
        if isinstance(l, tuple) and l[0] == 'if':
            _, pat, c, b1, b2, res, mods = l
            out.append(f'{pad}let {pat} := (if {c} then (')
            out.append(render(b1, res, ind + 4))
            out.append(f'{pad}  ) else (')
            out.append(render(b2, res, ind + 4))
            out.append(f'{pad}  ))')
            if len(mods) > 1:
                for i, v in enumerate(mods):
                    out.append(f'{pad}let {nm(v)} := {proj_n("r_", i, len(mods))}')
        else:
            out.append(pad + l)
    out.append(pad + result)
    return '\n'.join(out)


class Module:
    def __init__(self, tree):
        self.tree = tree
        self.fns = {n.name: n for n in tree.body if isinstance(n, ast.FunctionDef)}
        self.defs = []
        self.sigs_done = {}
        # which translated functions draw randomness (transitively)
        self.rnd_fns = set()
        changed = True
        while changed:
            changed = False
            for name in ORDER:
                if name in self.fns and name not in self.rnd_fns and uses_random_node(self.fns[name], self.rnd_fns):
                    self.rnd_fns.add(name)
                    changed = True
        # ... and which of them draw when called (not only inside a lambda they build)
        self.draw_fns = set()
        changed = True
        while changed:
            changed = False
            for name in ORDER:
                if name in self.fns and name not in self.draw_fns and uses_random_node(self.fns[name], self.draw_fns, True):
                    self.draw_fns.add(name)
                    changed = True

    def emit_def(self, name, params, rty, lines, result, doc, patch_assert=False):
        self.defs.append([name, params, rty, lines, result, doc])

    def render_all(self):
        out = []
        names = {d[0]: d for d in self.defs}
        for name, params, rty, lines, result, doc in self.defs:
            # an assert definition inside a loop body shares the (by now complete) parameter list of that body
            if '_assert' in name:
                owner = name[:name.rindex('_assert')]
                params = names[owner][1]
            ps = ' '.join(f'({p} : {lt(t)})' for p, t in params)
            r = rty if isinstance(rty, str) and rty == 'Bool' else lt(rty)
            out.append(f'/-- {doc} -/\ndef {name} {ps} : {r} :=\n{render(lines, result, 2)}\n')
        return out

    def translate(self):
        for name in ORDER:
            fn = self.fns.get(name) or fail(self.tree, f'function {name} not found')
            sig = SIGS[name]
            a = fn.args
            if [x.arg for x in a.args] != [p for p, _ in sig] or a.vararg or a.kwarg or a.kwonlyargs or a.defaults:
                fail(fn, f'signature of {name} changed')
            rnd = name in self.rnd_fns
            env = {}
            params = []
            if name == 'MST':
                params.append(('O', 'oracles'))
            if rnd:
                env['choice'] = 'choice'
                env['rng_'] = 'nat'
                params += [('choice', 'choice'), ('rng_', 'nat')]
            for p, t in sig:
                env[p] = t
                params.append((nm(p), t))
            c = Fn(self, name, fn)
            for x in ast.walk(fn):
                if (isinstance(x, ast.Name) and x.id in INTERNAL) or (isinstance(x, ast.arg) and x.arg in INTERNAL):
                    fail(x, 'a variable named like one of the translation\'s own names')
            lines = []
            ret = c.block(fn.body, env, lines, name, params, True)
            if ret is None:
                fail(fn, f'{name} has no final return')
            self.emit_def(name, params, ret[1], lines, ret[0], f'`{name}({", ".join(p for p, _ in sig)})` of mechanisms/mst.py (line {fn.lineno})')
            self.sigs_done[name] = ([(p, t) for p, t in sig], ret[1], rnd)
        return self.render_all()


def check_facts(repo):
    """facts of other files the translation relies on; fail when they changed"""
    dom = ast.parse(open(os.path.join(repo, 'src', 'mbi', 'domain.py')).read())
    cls = next((n for n in dom.body if isinstance(n, ast.ClassDef) and n.name == 'Domain'), None)
    fns = {n.name: n for n in cls.body if isinstance(n, ast.FunctionDef)} if cls else {}

    def body(fn):
        return [ast.unparse(s) for s in fn.body if not (isinstance(s, ast.Expr) and isinstance(s.value, ast.Constant))]
    if 'fromdict' not in fns or body(fns['fromdict']) != ['return Domain(config.keys(), config.values())']:
        raise Untranslatable('domain.py: Domain.fromdict is no longer `Domain(config.keys(), config.values())`')
    if '__iter__' not in fns or body(fns['__iter__']) != ['return self.attrs.__iter__()']:
        raise Untranslatable('domain.py: Domain.__iter__ no longer iterates over the attributes')
    init = fns.get('__init__')
    ib = body(init) if init else []
    if 'self.attrs = tuple(attrs)' not in ib or 'self.shape = tuple(shape)' not in ib:
        raise Untranslatable('domain.py: Domain.__init__ no longer stores attrs / shape as given')
    ds = ast.parse(open(os.path.join(repo, 'src', 'mbi', 'dataset.py')).read())
    cls = next((n for n in ds.body if isinstance(n, ast.ClassDef) and n.name == 'Dataset'), None)
    fns = {n.name: n for n in cls.body if isinstance(n, ast.FunctionDef)} if cls else {}
    ib = body(fns['__init__']) if '__init__' in fns else []
    if [x.arg for x in fns['__init__'].args.args][:3] != ['self', 'df', 'domain'] or 'self.domain = domain' not in ib \
            or 'self.df = df.loc[:, domain.attrs]' not in ib:
        raise Untranslatable('dataset.py: Dataset.__init__ no longer stores `domain` and `df.loc[:, domain.attrs]`')


HEADER = '''/- GENERATED by tools/py2mstdom.py from mechanisms/mst.py — do not edit -/
import PGM.Model.MstDom
set_option linter.unusedVariables false
namespace PGM.MstDomG
open PGM PGM.MstDom
variable {α κ ε μ : Type} [MScalar α] [QMat α κ]

'''


def main():
    ap = argparse.ArgumentParser()
    ap.add_argument('--repo', default='/repo')
    ap.add_argument('--out', required=True)
    a = ap.parse_args()
    try:
        check_facts(a.repo)
        src = open(os.path.join(a.repo, 'mechanisms', 'mst.py')).read()
        defs = Module(ast.parse(src)).translate()
    except Untranslatable as e:
        print('py2mstdom: source outside the translatable subset:', e)
        return 1
    os.makedirs(a.out, exist_ok=True)
    with open(os.path.join(a.out, 'MstDomG.lean'), 'w') as f:
        f.write(HEADER + '\n'.join(defs) + '\nend PGM.MstDomG\n')
    print(f'py2mstdom: {len(defs)} definitions')
    return 0


if __name__ == '__main__':
    sys.exit(main())
