#!/usr/bin/env python3
"""tools/py2total.py --repo R --out DIR

Translates the "estimate the total" block, which the library carries in three copies,

    src/mbi/inference.py         FactoredInference._setup   body of `if total is None:`
    src/mbi/local_inference.py   LocalInference._setup      body of `if total is None:`
    src/mbi/public_inference.py  estimate_total(measurements)

statement by statement into three Lean definitions (`DIR/TotalG.lean`, namespace `PGM.TotalG`):
`estimateTotal_inference`, `estimateTotal_local`, `estimateTotal_public`.  `PGM/Properties/C09G.lean` proves
each of them equal to the hand-written model `Total.totalEstimate` (`PGM/Model/Total.lean`) that the C09
theorems are about, under the two numerical contracts the definitions are parametrised by:

    lsmrSolve : List (List K) → List K        what `lsmr(Q.T, ones(Q.shape[1]), atol=0, btol=0,
                                              maxiter=10*max(Q.shape))[0]` returns for the matrix `Q`
    allclose  : List K → List K → Bool        `np.allclose(a, b)` with the default tolerances

The contracts speak about *these* calls, so the translator CHECKS their arguments: a changed / dropped / extra
argument of `lsmr` or `np.allclose` is outside the subset (reported with the argument's name).

The translatable subset (anything else fails loudly -- a broken obligation):
  statements   x = e ; `for Q, y, noise, proj in measurements:` (-> List.foldl over the explicit state of the
               variables the body re-assigns) ; `if c: … [else: …]` ; `return e` (function site) ; comments
  expressions  names ; the literals 0, 1, 0.0, 1.0 (the field class has no other numerals) ; + - * / with numpy
               broadcasting between scalars and 1-d arrays ; `x ** n` (literal natural n) ;
               np.array([]) ; np.append(xs, e) ; np.ones(n) ; np.sum(xs) ; np.dot(u, v) ; Q.T.dot(v) ; Q.dot(x) ;
               Q.shape[i] ; xs.size ; max(a, b) ; np.maximum(a, xs) ; n == k ; the two contract calls.
"""
import argparse, ast, os, sys


class Untranslatable(Exception):
    pass


CUR = {'file': '?'}


def fail(node, why):
    line = getattr(node, 'lineno', '?')
    text = ast.unparse(node) if isinstance(node, ast.AST) else str(node)
    if len(text) > 160:
        text = text[:157] + '...'
    raise Untranslatable(f'{CUR["file"]}:{line} {why}: {text}')


# ---------------------------------------------------------------------------------------------------------
# types of the little language
K, V, M, MT, N, SHAPE, B, P, MEAS = 'K', 'V', 'M', 'MT', 'N', 'SHAPE', 'B', 'P', 'MEAS'
LEAN_TY = {K: 'K', V: 'List K', M: 'List (List K)', N: 'Nat', B: 'Bool', P: 'P',
           MEAS: 'List (List (List K) × List K × K × P)'}
ITEM_TY = 'List (List K) × List K × K × P'
ITEM_FIELDS = [(M, 'it.1'), (V, 'it.2.1'), (K, 'it.2.2.1'), (P, 'it.2.2.2')]


class Val:
    """a translated expression: lean term, type, and (for the contract checks) where the value came from"""
    def __init__(self, lean, ty, tag=None):
        self.lean, self.ty, self.tag = lean, ty, tag


def is_num(n, value):
    return isinstance(n, ast.Constant) and not isinstance(n.value, bool) and isinstance(n.value, (int, float)) and n.value == value


def is_np(n, attr):
    return isinstance(n, ast.Attribute) and isinstance(n.value, ast.Name) and n.value.id == 'np' and n.attr == attr


class Tr:
    def __init__(self, env):
        self.env = dict(env)          # python name -> Val

    # ---- expressions --------------------------------------------------------------------------------
    def want(self, n, ty, what):
        v = self.expr(n)
        if v.ty != ty:
            fail(n, f'{what}: expected {ty}, got {v.ty}')
        return v

    def expr(self, n):
        if isinstance(n, ast.Name):
            if n.id in self.env:
                return self.env[n.id]
            fail(n, 'unknown name (not a local of the block)')
        if isinstance(n, ast.Constant):
            if is_num(n, 0):
                return Val('(0 : K)', K)
            if is_num(n, 1):
                return Val('(1 : K)', K)
            fail(n, 'literal other than 0 / 1 (the field class of Total.lean has no other numerals)')
        if isinstance(n, ast.BinOp):
            return self.binop(n)
        if isinstance(n, ast.Attribute):
            if n.attr == 'T':
                q = self.want(n.value, M, 'transpose')
                return Val(None, MT, ('T', q.lean))
            if n.attr == 'shape':
                q = self.want(n.value, M, '.shape')
                return Val(None, SHAPE, ('shape', q.lean))
            if n.attr == 'size':
                x = self.want(n.value, V, '.size')
                return Val(f'{x.lean}.length', N)
            fail(n, 'unsupported attribute')
        if isinstance(n, ast.Subscript):
            if isinstance(n.value, ast.Call) and isinstance(n.value.func, ast.Name) and n.value.func.id == 'lsmr':
                return self.lsmr(n)
            base = self.expr(n.value)
            if base.ty == SHAPE:
                q = base.tag[1]
                if is_num(n.slice, 0):
                    return Val(f'{q}.length', N, ('shape0', q))
                if is_num(n.slice, 1):
                    return Val(f'(ncols {q})', N, ('shape1', q))
                fail(n, 'shape index must be the literal 0 or 1')
            fail(n, 'unsupported subscript')
        if isinstance(n, ast.Call):
            return self.call(n)
        if isinstance(n, ast.Compare):
            if len(n.ops) == 1 and isinstance(n.ops[0], ast.Eq):
                a = self.expr(n.left)
                c = n.comparators[0]
                if a.ty == N and isinstance(c, ast.Constant) and type(c.value) is int and c.value >= 0:
                    return Val(f'({a.lean} == {c.value})', B)
            fail(n, 'unsupported comparison (only `<nat> == <literal>`)')
        fail(n, 'unsupported expression')

    def binop(self, n):
        if isinstance(n.op, ast.Pow):
            a = self.want(n.left, K, 'base of **')
            e = n.right
            if not (isinstance(e, ast.Constant) and type(e.value) is int and e.value >= 0):
                fail(n, 'exponent must be a literal natural number')
            return Val(f'(powNat {a.lean} {e.value})', K)
        ops = {ast.Add: '+', ast.Sub: '-', ast.Mult: '*', ast.Div: '/'}
        if type(n.op) not in ops:
            fail(n, 'unsupported operator')
        o = ops[type(n.op)]
        a, b = self.expr(n.left), self.expr(n.right)
        if (a.ty, b.ty) == (K, K):
            return Val(f'({a.lean} {o} {b.lean})', K)
        if (a.ty, b.ty) == (K, V):      # numpy broadcasting: scalar op array
            return Val(f'({b.lean}.map (fun x => {a.lean} {o} x))', V)
        if (a.ty, b.ty) == (V, K):
            return Val(f'({a.lean}.map (fun x => x {o} {b.lean}))', V)
        if (a.ty, b.ty) == (V, V):      # element-wise (numpy insists on equal lengths)
            return Val(f'(List.zipWith (fun a b => a {o} b) {a.lean} {b.lean})', V)
        fail(n, f'unsupported operand types {a.ty} {o} {b.ty}')

    def call(self, n):
        f = n.func
        if is_np(f, 'allclose'):
            return self.allclose(n)
        if isinstance(f, ast.Name) and f.id == 'lsmr':
            fail(n, 'the lsmr result must be used as `lsmr(...)[0]` (the solution vector)')
        if n.keywords:
            fail(n, 'keyword arguments are not in the subset')
        if is_np(f, 'array'):
            if len(n.args) == 1 and isinstance(n.args[0], ast.List) and not n.args[0].elts:
                return Val('([] : List K)', V)
            fail(n, 'only np.array([])')
        if is_np(f, 'append') and len(n.args) == 2:
            xs = self.want(n.args[0], V, 'np.append array')
            e = self.want(n.args[1], K, 'np.append element')
            return Val(f'({xs.lean} ++ [{e.lean}])', V)
        if is_np(f, 'ones') and len(n.args) == 1:
            k = self.want(n.args[0], N, 'np.ones length')
            return Val(f'(List.replicate {k.lean} (1 : K))', V, ('ones',) + (k.tag or (None, None)))
        if is_np(f, 'sum') and len(n.args) == 1:
            xs = self.want(n.args[0], V, 'np.sum')
            return Val(f'(npSum {xs.lean})', K)
        if is_np(f, 'dot') and len(n.args) == 2:
            a = self.want(n.args[0], V, 'np.dot'); b = self.want(n.args[1], V, 'np.dot')
            return Val(f'(dot {a.lean} {b.lean})', K)
        if is_np(f, 'maximum') and len(n.args) == 2:
            a = self.want(n.args[0], K, 'np.maximum'); b = self.want(n.args[1], V, 'np.maximum')
            return Val(f'({b.lean}.map (fun x => pyMax {a.lean} x))', V)
        if isinstance(f, ast.Name) and f.id == 'max' and len(n.args) == 2:
            a = self.want(n.args[0], K, 'max'); b = self.want(n.args[1], K, 'max')
            return Val(f'(pyMax {a.lean} {b.lean})', K)
        if isinstance(f, ast.Attribute) and f.attr == 'dot' and len(n.args) == 1:
            m = self.expr(f.value)
            x = self.want(n.args[0], V, '.dot argument')
            if m.ty == MT:
                return Val(f'(matTVec {m.tag[1]} {x.lean})', V, ('QTdot', m.tag[1], x.tag))
            if m.ty == M:
                return Val(f'(matVec {m.lean} {x.lean})', V)
            fail(n, '.dot receiver must be a matrix or its transpose')
        fail(n, 'unsupported call')

    # ---- the two contract calls: their arguments are CHECKED ----------------------------------------
    def lsmr(self, sub):
        """`lsmr(Q.T, o, atol=0, btol=0, maxiter=10*max(Q.shape))[0]`  ->  lsmrSolve Q"""
        if not is_num(sub.slice, 0):
            fail(sub, 'lsmr contract: only component [0] (the solution) of the result is covered')
        c = sub.value
        if len(c.args) != 2:
            fail(c, 'lsmr contract: exactly two positional arguments (A, b) expected')
        a = self.expr(c.args[0])
        if a.ty != MT:
            fail(c.args[0], 'lsmr contract: argument `A` must be the transpose `Q.T` of the query matrix')
        q = a.tag[1]
        b = self.expr(c.args[1])
        if not (b.ty == V and b.tag == ('ones', 'shape1', q)):
            fail(c.args[1], f'lsmr contract: argument `b` must be np.ones({q}.shape[1])')
        kws = {}
        for kw in c.keywords:
            if kw.arg is None or kw.arg in kws:
                fail(c, 'lsmr contract: **kwargs / repeated keyword')
            kws[kw.arg] = kw.value
        for name in ('atol', 'btol'):
            if name not in kws:
                fail(c, f'lsmr contract: argument `{name}` is missing (must be {name}=0)')
            if not is_num(kws[name], 0):
                fail(kws[name], f'lsmr contract: argument `{name}` must be 0')
        if 'maxiter' not in kws:
            fail(c, f'lsmr contract: argument `maxiter` is missing (must be maxiter=10*max({q}.shape))')
        self.check_maxiter(kws['maxiter'], q)
        for name in kws:
            if name not in ('atol', 'btol', 'maxiter'):
                fail(kws[name], f'lsmr contract: unexpected argument `{name}`')
        return Val(f'(lsmrSolve {q})', V, ('lsmr', q))

    def check_maxiter(self, n, q):
        ok = (isinstance(n, ast.BinOp) and isinstance(n.op, ast.Mult) and is_num(n.left, 10)
              and isinstance(n.right, ast.Call) and isinstance(n.right.func, ast.Name) and n.right.func.id == 'max'
              and len(n.right.args) == 1 and not n.right.keywords)
        if ok:
            s = self.expr(n.right.args[0])
            ok = s.ty == SHAPE and s.tag == ('shape', q)
        if not ok:
            fail(n, f'lsmr contract: argument `maxiter` must be 10*max({q}.shape)')

    def allclose(self, c):
        """`np.allclose(Q.T.dot(v), o)` with default tolerances  ->  allclose (matTVec Q v) o"""
        for kw in c.keywords:
            fail(c, f'allclose contract: argument `{kw.arg}` changes the default tolerances')
        if len(c.args) != 2:
            fail(c, 'allclose contract: exactly two positional arguments expected (default rtol, atol, equal_nan)')
        a = self.expr(c.args[0])
        if not (a.ty == V and a.tag and a.tag[0] == 'QTdot' and a.tag[2] == ('lsmr', a.tag[1])):
            fail(c.args[0], 'allclose contract: first argument must be Q.T.dot(v) with v the lsmr solution for the same Q')
        q = a.tag[1]
        b = self.expr(c.args[1])
        if not (b.ty == V and b.tag == ('ones', 'shape1', q)):
            fail(c.args[1], f'allclose contract: second argument must be np.ones({q}.shape[1])')
        return Val(f'(allclose {a.lean} {b.lean})', B)

    # ---- statements ---------------------------------------------------------------------------------
    def cond(self, n):
        c = self.want(n, B, 'condition')
        return f'{c.lean} = true'

    def stmts(self, ss, ind, k, mode):
        """translate the statement list `ss`; `k(tr)` gives the final expression when control falls off the end"""
        ss = [s for s in ss if not (isinstance(s, ast.Expr) and isinstance(s.value, ast.Constant)) and not isinstance(s, ast.Pass)]
        pad = ' ' * ind
        if not ss:
            return pad + k(self) + '\n'
        s, rest = ss[0], ss[1:]
        if isinstance(s, ast.Assign):
            if not (len(s.targets) == 1 and isinstance(s.targets[0], ast.Name)):
                fail(s, 'only `name = expression`')
            v = self.expr(s.value)
            if v.ty not in LEAN_TY:
                fail(s, f'a value of kind {v.ty} cannot be stored in a variable')
            name = s.targets[0].id
            self.check_name(s, name)
            line = f'{pad}let {name} : {LEAN_TY[v.ty]} := {v.lean}\n'
            self.env[name] = Val(name, v.ty, v.tag)
            self.invalidate(name)
            return line + self.stmts(rest, ind, k, mode)
        if isinstance(s, ast.Return):
            if mode != 'function':
                fail(s, '`return` inside the block of a method')
            if rest:
                fail(rest[0], 'statement after `return`')
            if s.value is None:
                fail(s, '`return` without a value')
            return pad + self.want(s.value, K, 'returned value').lean + '\n'
        if isinstance(s, ast.If):
            c = self.cond(s.test)
            if not rest:
                t1, t2 = Tr(self.env), Tr(self.env)
                return (f'{pad}if {c} then\n' + t1.stmts(s.body, ind + 2, k, mode)
                        + f'{pad}else\n' + t2.stmts(s.orelse, ind + 2, k, mode))
            # an `if` in the middle: an update of the variables it assigns
            upd = [x for x in assigned(s.body + s.orelse) if x in self.env]
            # (variables first assigned inside a branch stay local to it: using one afterwards is refused as unknown)
            if not upd:
                fail(s, '`if` without effect')
            tys = [self.env[x].ty for x in upd]
            kk = lambda tr: tuple_of([tr.env[x].lean for x in upd])
            t1, t2 = Tr(self.env), Tr(self.env)
            out = (f'{pad}let st := if {c} then\n' + t1.stmts(s.body, ind + 4, kk, 'update')
                   + f'{pad}  else\n' + t2.stmts(s.orelse, ind + 4, kk, 'update'))
            out += self.unpack(upd, tys, 'st', pad)
            return out + self.stmts(rest, ind, k, mode)
        if isinstance(s, ast.For):
            return self.loop(s, ind) + self.stmts(rest, ind, k, mode)
        fail(s, 'unsupported statement')

    def check_name(self, node, name):
        if name in ('lsmrSolve', 'allclose', 'st', 'it', 'K', 'P') or name in RESERVED:
            fail(node, f'variable name `{name}` clashes with the generated Lean')

    def invalidate(self, name):
        """re-assigning a matrix variable invalidates what was derived from it"""
        for x, v in self.env.items():
            if x != name and v.tag and name in [t for t in flatten(v.tag)]:
                self.env[x] = Val(v.lean, v.ty, None)

    def unpack(self, names, tys, st, pad):
        out = ''
        for i, (x, ty) in enumerate(zip(names, tys)):
            proj = st + ''.join('.2' for _ in range(i)) + ('.1' if i < len(names) - 1 else '')
            if len(names) == 1:
                proj = st
            out += f'{pad}let {x} : {LEAN_TY[ty]} := {proj}\n'
            self.env[x] = Val(x, ty)
        return out

    def loop(self, s, ind):
        pad = ' ' * ind
        if s.orelse:
            fail(s, '`for … else`')
        it = self.want(s.iter, MEAS, 'loop range')
        tg = s.target
        if not (isinstance(tg, ast.Tuple) and len(tg.elts) == 4 and all(isinstance(e, ast.Name) for e in tg.elts)):
            fail(s, 'the loop must unpack a measurement as four names `Q, y, noise, proj`')
        names = [e.id for e in tg.elts]
        if len(set(names)) != 4:
            fail(s, 'repeated name in the loop target')
        for node in ast.walk(ast.Module(body=s.body, type_ignores=[])):
            if isinstance(node, (ast.Break, ast.Continue, ast.Return)):
                fail(node, 'break / continue / return inside the loop')
        carried = [x for x in assigned(s.body) if x in self.env and x not in names]
        if not carried:
            fail(s, 'loop without effect on the variables of the block')
        for x in names:
            self.check_name(s, x)
        tys = [self.env[x].ty for x in carried]
        st_ty = ' × '.join(LEAN_TY[t] for t in tys)
        inner = Tr(self.env)
        body = ''
        pad2 = ' ' * (ind + 4)
        body += inner.unpack(carried, tys, 'st', pad2)
        for x, (ty, proj) in zip(names, ITEM_FIELDS):
            body += f'{pad2}let {x} : {LEAN_TY[ty]} := {proj}\n'
            inner.env[x] = Val(x, ty)
            inner.invalidate(x)

        def k(tr):
            for x, t in zip(carried, tys):
                if tr.env[x].ty != t:
                    fail(s, f'the type of `{x}` changes inside the loop')
            return tuple_of([tr.env[x].lean for x in carried])
        body += inner.stmts(s.body, ind + 4, k, 'update')
        init = tuple_of([self.env[x].lean for x in carried])
        out = (f'{pad}let st := {it.lean}.foldl (fun (st : {st_ty}) (it : {ITEM_TY}) =>\n'
               + body.rstrip('\n') + f') {init}\n')
        out += self.unpack(carried, tys, 'st', pad)
        # names bound inside the loop are not visible afterwards (Python would leak them; using one is refused)
        return out


RESERVED = {'dot', 'matVec', 'matTVec', 'ncols', 'npSum', 'powNat', 'pyMax', 'fun', 'let', 'if', 'then', 'else', 'open',
            'def', 'end', 'at', 'from', 'have', 'show', 'do', 'in', 'match', 'with', 'Type', 'Nat', 'List'}


def flatten(t):
    for x in t:
        if isinstance(x, tuple):
            yield from flatten(x)
        else:
            yield x


def tuple_of(xs):
    return xs[0] if len(xs) == 1 else '(' + ', '.join(xs) + ')'


def assigned(ss):
    """names assigned anywhere in the statement list, in order of first assignment"""
    out = []

    def go(stmts):
        for s in stmts:
            if isinstance(s, ast.Assign):
                for t in s.targets:
                    for nm in ast.walk(t):
                        if isinstance(nm, ast.Name) and nm.id not in out:
                            out.append(nm.id)
            elif isinstance(s, (ast.AugAssign, ast.AnnAssign)):
                fail(s, 'augmented / annotated assignment')
            elif isinstance(s, ast.If):
                go(s.body); go(s.orelse)
            elif isinstance(s, ast.For):
                for nm in ast.walk(s.target):
                    if isinstance(nm, ast.Name) and nm.id not in out:
                        out.append(nm.id)
                go(s.body); go(s.orelse)
    go(ss)
    return out


# ---------------------------------------------------------------------------------------------------------
# locating the three sites

def check_imports(tree):
    """`np` must be numpy and `lsmr` scipy's: the contracts are about those"""
    np_ok = lsmr_ok = False
    for s in tree.body:
        if isinstance(s, ast.Import):
            for a in s.names:
                if a.name == 'numpy' and a.asname == 'np':
                    np_ok = True
                elif (a.asname or a.name) in ('np', 'lsmr'):
                    fail(s, 'the names np / lsmr are bound to something else')
        if isinstance(s, ast.ImportFrom):
            for a in s.names:
                if (a.asname or a.name) == 'lsmr':
                    if s.module == 'scipy.sparse.linalg' and a.name == 'lsmr':
                        lsmr_ok = True
                    else:
                        fail(s, 'lsmr is not scipy.sparse.linalg.lsmr')
                elif (a.asname or a.name) == 'np':
                    fail(s, 'np is not numpy')
        if isinstance(s, (ast.FunctionDef, ast.ClassDef)) and s.name in ('lsmr', 'np', 'max'):
            fail(s, f'`{s.name}` is redefined in the module')
        if isinstance(s, ast.Assign) and any(isinstance(t, ast.Name) and t.id in ('lsmr', 'np', 'max') for t in s.targets):
            fail(s, 'np / lsmr / max re-bound at module level')
    if not np_ok:
        fail(tree, '`import numpy as np` not found')
    if not lsmr_ok:
        fail(tree, '`from scipy.sparse.linalg import lsmr` not found')


def nodoc(ss):
    return [s for s in ss if not (isinstance(s, ast.Expr) and isinstance(s.value, ast.Constant))]


def method_block(tree, cls_name):
    cls = next((n for n in tree.body if isinstance(n, ast.ClassDef) and n.name == cls_name), None)
    if cls is None:
        fail(tree, f'class {cls_name} not found')
    fn = next((n for n in cls.body if isinstance(n, ast.FunctionDef) and n.name == '_setup'), None)
    if fn is None:
        fail(cls, f'{cls_name}._setup not found')
    if [a.arg for a in fn.args.args] != ['self', 'measurements', 'total']:
        fail(fn, f'signature of _setup changed: {[a.arg for a in fn.args.args]}')
    body = nodoc(fn.body)
    if not (body and isinstance(body[0], ast.If) and ast.unparse(body[0].test) == 'total is None'):
        fail(fn, '_setup must begin with `if total is None:`')
    blk = body[0]
    if blk.orelse:
        fail(blk, '`if total is None:` has an else branch')
    return blk


def translate_site(repo, fname, site):
    path = os.path.join(repo, 'src', 'mbi', fname)
    CUR['file'] = fname
    tree = ast.parse(open(path).read())
    check_imports(tree)
    env = {'measurements': Val('measurements', MEAS)}
    if site in ('inference', 'local'):
        cls = 'FactoredInference' if site == 'inference' else 'LocalInference'
        blk = method_block(tree, cls)
        where = f'{cls}._setup, body of `if total is None:` ({fname}:{blk.lineno})'

        def k(tr):
            if 'total' not in tr.env:
                fail(blk, '`total` is not assigned on every path through the block')
            if tr.env['total'].ty != K:
                fail(blk, '`total` is not a number')
            return tr.env['total'].lean
        body = Tr(env).stmts(blk.body, 2, k, 'block')
    else:
        fn = next((n for n in tree.body if isinstance(n, ast.FunctionDef) and n.name == 'estimate_total'), None)
        if fn is None:
            fail(tree, 'function estimate_total not found')
        if [a.arg for a in fn.args.args] != ['measurements'] or fn.args.vararg or fn.args.kwarg or fn.args.kwonlyargs:
            fail(fn, 'signature of estimate_total changed')
        # … and it is what PublicInference.estimate uses for a missing total
        cls = next((n for n in tree.body if isinstance(n, ast.ClassDef) and n.name == 'PublicInference'), None)
        est = cls and next((n for n in cls.body if isinstance(n, ast.FunctionDef) and n.name == 'estimate'), None)
        uses = est and any(isinstance(s, ast.If) and ast.unparse(s.test) == 'total is None' and not s.orelse
                           and [ast.unparse(x) for x in nodoc(s.body)] == ['total = estimate_total(measurements)']
                           for s in est.body)
        if not uses:
            fail(cls or tree, 'PublicInference.estimate no longer has `if total is None: total = estimate_total(measurements)`')
        where = f'estimate_total ({fname}:{fn.lineno})'

        def k(tr):
            fail(fn, 'a path through estimate_total ends without `return`')
        body = Tr(env).stmts(fn.body, 2, k, 'function')
    return (f'/-- {where} -/\n'
            f'def estimateTotal_{site} {{P : Type}} (lsmrSolve : List (List K) → List K) (allclose : List K → List K → Bool)\n'
            f'    (measurements : {LEAN_TY[MEAS]}) : K :=\n' + body)


HEADER = '''/- GENERATED by tools/py2total.py from src/mbi/{inference,local_inference,public_inference}.py — do not edit
   The "estimate the total" block, one definition per copy, statement by statement.  Parameters:
     lsmrSolve Q  = what `lsmr(Q.T, np.ones(Q.shape[1]), atol=0, btol=0, maxiter=10*max(Q.shape))[0]` returns
     allclose a b = `np.allclose(a, b)` (default tolerances)
   (the translator checked that these are exactly the calls in the source).  A measurement is the Python
   tuple `(Q, y, noise, proj)`; `proj` is opaque (`P`). -/
import PGM.Model.Total
set_option linter.unusedVariables false
namespace PGM.TotalG
open PGM PGM.Total
variable {K : Type} [Add K] [Sub K] [Mul K] [Div K] [Zero K] [One K] [DecidableEq K] [LT K]
  [DecidableRel (α := K) (· < ·)]

/-- `np.sum` of a 1-d array (from 0; exact arithmetic, so the order of additions is immaterial) -/
def npSum (xs : List K) : K := xs.foldl (· + ·) 0

/-- `x ** n` for a literal natural `n` -/
def powNat (x : K) : Nat → K
  | 0 => 1
  | n + 1 => powNat x n * x

/-- Python's `max(a, b)`: the first argument unless the second is strictly larger -/
def pyMax (a b : K) : K := if a < b then b else a

'''

SITES = [('inference.py', 'inference'), ('local_inference.py', 'local'), ('public_inference.py', 'public')]


def main():
    ap = argparse.ArgumentParser()
    ap.add_argument('--repo', default='/repo')
    ap.add_argument('--out', required=True)
    a = ap.parse_args()
    try:
        defs = [translate_site(a.repo, f, s) for f, s in SITES]
    except Untranslatable as e:
        print('py2total: source outside the translatable subset:', e)
        return 1
    except (OSError, SyntaxError) as e:
        print('py2total: source outside the translatable subset:', f'{CUR["file"]}:? cannot read/parse: {e}')
        return 1
    os.makedirs(a.out, exist_ok=True)
    with open(os.path.join(a.out, 'TotalG.lean'), 'w') as f:
        f.write(HEADER + '\n'.join(defs) + '\nend PGM.TotalG\n')
    print(f'py2total: {len(defs)} definitions')
    return 0


if __name__ == '__main__':
    sys.exit(main())
