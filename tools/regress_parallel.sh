#!/bin/bash
# tools/regress_parallel.sh [workers] [pattern]
# Re-runs every seeded change against the check of the property it breaks (demos skipped: they were confirmed when the change was kept),
# in N private copies of /verif (a check regenerates lean/PGM/Generated from the tree it is pointed at, so runs cannot share one copy).
# One line per change in regress.log: CAUGHT / CAUGHT-OBLIGATION-ONLY / MISSED / INFRA.
cd "$(dirname "$0")/.."
N="${1:-4}"; pat="${2:-}"
ls -d seeded/*${pat}*/ | sort > /tmp/regress.all
: > regress.log
for i in $(seq 1 $N); do
  (
    W=/root/rg$i
    rsync -a --delete --exclude replays --exclude evidence --exclude regress.log /verif/ $W/
    awk -v n=$N -v i=$i 'NR % n == i % n' /tmp/regress.all | while read d; do
      id=$(basename "$d")
      prop=$(python3 -c "import json; print(json.load(open('$W/$d/meta.json'))['breaks_property'])")
      out=$(cd $W && SKIP_DEMO=1 tools/try_mutant.sh "$W/$d" $prop 2>&1)
      rc=$(echo "$out" | grep -o "\[$prop rc=[0-9]*\]" | head -1)
      status=MISSED
      if echo "$out" | grep -q "PATCH DOES NOT APPLY"; then status=INFRA-PATCH;
      elif echo "$rc" | grep -q "rc=1"; then
        if echo "$out" | grep -q "failing-input"; then status=CAUGHT; else status=CAUGHT-OBLIGATION-ONLY; fi
      elif echo "$rc" | grep -q "rc=2"; then status=INFRA; fi
      echo "$status $id $rc" >> /verif/regress.log
    done
  ) &
done
wait
sort -k2 regress.log -o regress.log
echo "caught: $(grep -c '^CAUGHT ' regress.log)  obligation-only: $(grep -c '^CAUGHT-OBLIGATION-ONLY' regress.log)  missed: $(grep -c '^MISSED' regress.log)  infra: $(grep -c '^INFRA' regress.log)"
