import subprocess, shutil, os, re, sys
ROOT='/root/work/e2e-c01'; R='/root/work/e2e-c01_repo'; F=R+'/src/mbi/graphical_model.py'
ORIG=open('/repo/src/mbi/graphical_model.py').read()
OUT=ROOT+'/lean/PGM/Generated'
def sub(a,b):
    def f(s):
        assert s.count(a)==1,(a,s.count(a)); return s.replace(a,b)
    return f
def seq(*fs):
    def f(s):
        for g in fs: s=g(s)
        return s
    return f
T='        tree = JunctionTree(domain, cliques, elimination_order)\n'
E=[
('E1 message_order = tree.mp_order()[::-1]', sub('self.message_order = tree.mp_order()','self.message_order = tree.mp_order()[::-1]')),
('E2 cliques = the input list', sub('self.cliques = tree.maximal_cliques() # maximal cliques','self.cliques = cliques')),
('E3 cliques = [tuple(cl) for cl in cliques]', sub('self.cliques = tree.maximal_cliques() # maximal cliques','self.cliques = [tuple(cl) for cl in cliques]')),
('E4 sep_axes from another tree (order None)', seq(sub(T,T+'        tree2 = JunctionTree(domain, cliques, None)\n'), sub('self.sep_axes = tree.separator_axes()','self.sep_axes = tree2.separator_axes()'))),
('E5 self.elimination_order dropped', sub('        self.elimination_order = tree.elimination_order\n','')),
('E6 schedule from a second JunctionTree(domain, cliques)', sub('self.message_order = tree.mp_order()','self.message_order = JunctionTree(domain, cliques).mp_order()')),
('E7 JunctionTree(domain, cliques): elimination_order not passed', sub(T,'        tree = JunctionTree(domain, cliques)\n')),
('E8 size over the input cliques', sub('self.size = sum(domain.size(cl) for cl in self.cliques)','self.size = sum(domain.size(cl) for cl in cliques)')),
('E9 self.total = 1.0', sub('self.total = total','self.total = 1.0')),
('E10 neighbors = tree.separator_axes()', sub('self.neighbors = tree.neighbors()','self.neighbors = tree.separator_axes()')),
('E11 message_order listed twice', sub('self.message_order = tree.mp_order()','self.message_order = tree.mp_order() + tree.mp_order()')),
('E12 cliques = maximal_cliques()[::-1]', sub('self.cliques = tree.maximal_cliques() # maximal cliques','self.cliques = tree.maximal_cliques()[::-1]')),
('E13 JunctionTree(cliques, domain, ..) arguments swapped', sub(T,'        tree = JunctionTree(cliques, domain, elimination_order)\n')),
('E14 self.sep_axes dropped', sub('        self.sep_axes = tree.separator_axes()\n','')),
('E15 size guard stores a field (self.size = 0 inside the if)', sub("            import warnings\n","            import warnings\n            self.size = 0\n")),
('E16 elimination_order stored = the argument, not the tree\'s', sub('self.elimination_order = tree.elimination_order','self.elimination_order = elimination_order')),
('H1 harmless: neighbors stored before cliques', seq(sub('        self.neighbors = tree.neighbors()\n',''), sub('        self.cliques = tree.maximal_cliques() # maximal cliques\n','        self.neighbors = tree.neighbors()\n        self.cliques = tree.maximal_cliques() # maximal cliques\n'))),
('H2 harmless: local tree renamed jt', lambda s: s.replace(T,T.replace('tree =','jt =')).replace('self.junction_tree = tree','self.junction_tree = jt').replace('= tree.','= jt.')),
('H3 harmless: self.total stored before self.domain', sub('        self.domain = domain\n        self.total = total\n','        self.total = total\n        self.domain = domain\n')),
('H4 harmless: list(tree.maximal_cliques())', sub('self.cliques = tree.maximal_cliques() # maximal cliques','self.cliques = list(tree.maximal_cliques())')),
('H5 no effect on the object: warning threshold 4*10**8', sub('4*10**9','4*10**8')),
]
only=sys.argv[1:] 
for name,f in E:
    if only and not any(name.startswith(o+' ') for o in only): continue
    open(F,'w').write(f(ORIG))
    res=[]
    ok=True
    for t in ('py2jt','py2gminit'):
        p=subprocess.run(['/venv/bin/python',f'{ROOT}/tools/{t}.py','--repo',R,'--out',OUT],capture_output=True,text=True)
        if p.returncode!=0:
            print(f'{name}\n    -> TRANSLATOR STOP ({t}): {p.stdout.strip()[:230]}'); ok=False; break
    if not ok: continue
    p=subprocess.run(['lake','build','PGM.Properties.C01E'],cwd=ROOT+'/lean',capture_output=True,text=True)
    if p.returncode==0:
        print(f'{name}\n    -> PASSED (C01E builds)')
    else:
        out=p.stdout+p.stderr
        errs=re.findall(r'error: (PGM/\S+?):(\d+):\d+: ([^\n]*)',out)
        # map line numbers to theorem names
        src=open(ROOT+'/lean/PGM/Properties/C01E.lean').read().split('\n')
        names=[]
        for file,ln,msg in errs:
            if not file.endswith('C01E.lean'): names.append(file+':'+ln); continue
            i=int(ln)-1
            while i>=0 and not re.match(r'^(theorem|def|example|structure|abbrev)\b',src[i]): i-=1
            m=re.match(r'^(theorem|def|structure|abbrev)\s+(\S+)',src[i]) if i>=0 else None
            names.append(m.group(2) if m else f'example@{i+1}')
        uniq=[]
        for n in names:
            if n not in uniq: uniq.append(n)
        print(f'{name}\n    -> BUILD BROKEN: {", ".join(uniq[:8])}{" ..." if len(uniq)>8 else ""}')
open(F,'w').write(ORIG)
for t in ('py2jt','py2gminit'):
    subprocess.run(['/venv/bin/python',f'{ROOT}/tools/{t}.py','--repo','/repo','--out',OUT],capture_output=True)
