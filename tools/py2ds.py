#!/usr/bin/env python3
"""tools/py2ds.py --repo R --out DIR

Translates `src/mbi/dataset.py` (class Dataset: `__init__`, `project`, `drop`, `records`, `datavector`) into
Lean definitions over `PGM.Dataset α` (`PGM/Generated/DatasetG.lean`, namespace `PGM.DsG`).
`PGM/Properties/C15D.lean` proves each one equal to the hand-written model `PGM/Model/Dataset.lean` that the
dataset laws of C15 (`datavector_eq_count`, `datavector_project_comm`, …) are about.

A dataset value is (domain, frame, weights); the frame `self.df` is the table whose columns are the domain's
attributes (that is what `__init__` stores).  Contracts (library behaviour taken as given, written out in
`PGM/Model/Dataset.lean`):  `df.loc[:, labels]` on a frame with unique column labels = `Table.select`;
`df.shape[0]` = number of rows; `np.histogramdd(values, bins, weights)[0]` = `Dataset.histogramdd`.

Translatable subset (anything else fails loudly — a broken obligation):
  __init__ : the two asserts (`set(domain.attrs) <= set(df.columns)` becomes `initPre`; the weight-length assert is
             recorded as `initPreW`), `self.domain = domain`, `self.df = df.loc[:, E]`, `self.weights = weights`
  project  : the shorthand guard `if type(cols) in [str, int]: cols = [cols]` (the model takes lists), local
             assignments of `self.df.loc[:, E]` / `self.domain.project(E)`, `return Dataset(a, b, c)`
  drop     : `proj = [c for c in self.domain if c not in cols]` ; `return self.project(proj)`
  records  : `return self.df.shape[0]`
  datavector : `bins = [range(n + K) for n in self.domain.shape]` ; `ans = np.histogramdd(self.df.values, bins,
             weights=self.weights)[0]` ; `return ans.flatten() if flatten else ans` (the flattened vector)
Skipped: `synthetic` (random), `load` (file I/O).
"""
import argparse, ast, os, sys


class Untranslatable(Exception):
    pass


def fail(node, why):
    raise Untranslatable(f'dataset.py line {getattr(node, "lineno", "?")}: {why}: {ast.unparse(node) if isinstance(node, ast.AST) else node}')


def stmts_of(fn):
    return [s for s in fn.body if not (isinstance(s, ast.Expr) and isinstance(s.value, ast.Constant))]


class Tr:
    """expressions inside a method; `env` maps python locals to (lean term, kind)"""

    def __init__(self, env):
        self.env = dict(env)

    def attrs_list(self, n):
        """an expression denoting a list of attribute names"""
        if isinstance(n, ast.Name) and n.id in self.env and self.env[n.id][1] == 'attrs':
            return self.env[n.id][0]
        if isinstance(n, ast.Attribute) and n.attr == 'attrs':
            return f'(Dom.attrs {self.dom(n.value)})'
        if isinstance(n, ast.ListComp) and len(n.generators) == 1:
            g = n.generators[0]
            if isinstance(g.target, ast.Name) and isinstance(n.elt, ast.Name) and n.elt.id == g.target.id and not g.is_async:
                v = g.target.id
                src = self.iter_attrs(g.iter)
                conds = [self.cond(c, v) for c in g.ifs]
                t = src
                for c in conds:
                    t = f'({t}.filter (fun {v} => {c}))'
                return t
        fail(n, 'unsupported attribute-list expression')

    def iter_attrs(self, n):
        # iterating a Domain yields its attributes (Domain.__iter__ = attrs.__iter__)
        try:
            return f'(Dom.attrs {self.dom(n)})'
        except Untranslatable:
            return self.attrs_list(n)

    def cond(self, n, v):
        if isinstance(n, ast.Compare) and len(n.ops) == 1 and isinstance(n.left, ast.Name) and n.left.id == v:
            xs = self.attrs_list(n.comparators[0])
            if isinstance(n.ops[0], ast.NotIn):
                return f'(!({xs}.contains {v}))'
            if isinstance(n.ops[0], ast.In):
                return f'({xs}.contains {v})'
        fail(n, 'unsupported condition')

    def dom(self, n):
        if isinstance(n, ast.Name) and n.id in self.env and self.env[n.id][1] == 'dom':
            return self.env[n.id][0]
        if isinstance(n, ast.Attribute) and n.attr == 'domain' and isinstance(n.value, ast.Name) and n.value.id == 'self':
            return 'D.dom'
        if isinstance(n, ast.Call) and isinstance(n.func, ast.Attribute) and n.func.attr == 'project' and len(n.args) == 1 and not n.keywords:
            return f'(DomG.project {self.dom(n.func.value)} {self.attrs_list(n.args[0])})'
        fail(n, 'unsupported domain expression')

    def frame(self, n):
        """an expression denoting a pandas frame -> Lean `Dataset.Table`"""
        if isinstance(n, ast.Name) and n.id in self.env and self.env[n.id][1] == 'frame':
            return self.env[n.id][0]
        if isinstance(n, ast.Attribute) and n.attr == 'df' and isinstance(n.value, ast.Name) and n.value.id == 'self':
            return '(frame D)'
        # E.loc[:, labels]
        if (isinstance(n, ast.Subscript) and isinstance(n.value, ast.Attribute) and n.value.attr == 'loc'
                and isinstance(n.slice, ast.Tuple) and len(n.slice.elts) == 2
                and isinstance(n.slice.elts[0], ast.Slice) and n.slice.elts[0].lower is None and n.slice.elts[0].upper is None
                and n.slice.elts[0].step is None):
            labels = self.attrs_list(n.slice.elts[1])
            base = self.frame(n.value.value)
            return f'(({{ cols := {labels}, rows := Dataset.Table.select {base} {labels} }} : Dataset.Table))'
        fail(n, 'unsupported frame expression')

    def weights(self, n):
        if isinstance(n, ast.Name) and n.id in self.env and self.env[n.id][1] == 'weights':
            return self.env[n.id][0]
        if isinstance(n, ast.Attribute) and n.attr == 'weights' and isinstance(n.value, ast.Name) and n.value.id == 'self':
            return 'D.weights'
        fail(n, 'unsupported weights expression')


def translate(src):
    tree = ast.parse(src)
    cls = next((n for n in tree.body if isinstance(n, ast.ClassDef) and n.name == 'Dataset'), None) or fail(tree, 'class Dataset not found')
    fns = {n.name: n for n in cls.body if isinstance(n, ast.FunctionDef)}
    out = []

    def need(name, args):
        fn = fns.get(name) or fail(cls, f'method {name} not found')
        if [a.arg for a in fn.args.args] != args:
            fail(fn, f'signature changed: {[a.arg for a in fn.args.args]}')
        return fn

    # ---- __init__
    fn = need('__init__', ['self', 'df', 'domain', 'weights'])
    tr = Tr({'df': ('df', 'frame'), 'domain': ('domain', 'dom'), 'weights': ('weights', 'weights')})
    pre, fields = [], {}
    for s in stmts_of(fn):
        if isinstance(s, ast.Assert):
            t = s.test
            if (isinstance(t, ast.Compare) and isinstance(t.ops[0], ast.LtE) and ast.unparse(t.left).startswith('set(')
                    and ast.unparse(t.comparators[0]) == 'set(df.columns)'):
                inner = t.left.args[0]
                pre.append(f'({tr.attrs_list(inner)}.all (fun a => df.cols.contains a))')
            elif ast.unparse(t) == 'weights is None or df.shape[0] == weights.size':
                out.append('/-- the second assertion of `Dataset.__init__`: one weight per row -/\n'
                           'def initPreW (df : Dataset.Table) (weights : Option (List α)) : Bool :=\n'
                           '  match weights with | none => true | some w => df.rows.length == w.length\n')
            else:
                fail(s, 'unknown assertion')
        elif isinstance(s, ast.Assign) and len(s.targets) == 1 and isinstance(s.targets[0], ast.Attribute) \
                and isinstance(s.targets[0].value, ast.Name) and s.targets[0].value.id == 'self':
            f = s.targets[0].attr
            if f == 'domain':
                fields['dom'] = tr.dom(s.value)
            elif f == 'df':
                fr = tr.frame(s.value)
                fields['frame'] = fr
            elif f == 'weights':
                fields['weights'] = tr.weights(s.value)
            else:
                fail(s, 'unknown field')
        else:
            fail(s, 'unsupported statement in __init__')
    if set(fields) != {'dom', 'frame', 'weights'} or len(pre) != 1:
        fail(fn, '__init__ must set domain, df, weights and assert the column check')
    out.append('/-- the first assertion of `Dataset.__init__` -/\n'
               f'def initPre (df : Dataset.Table) (domain : Dom) : Bool :=\n  {pre[0]}\n')
    out.append('/-- `Dataset.__init__`: the stored frame has exactly the columns selected here; a `Dataset` value keeps its rows\n'
               '(the invariant `frame D = ⟨D.dom.attrs, D.rows⟩` holds when the selected labels are the stored domain\'s attributes,\n'
               '`init_frame` in C15D) -/\n'
               'def init (df : Dataset.Table) (domain : Dom) (weights : Option (List α)) : Dataset α :=\n'
               f'  {{ dom := {fields["dom"]}, rows := ({fields["frame"]}).rows, weights := {fields["weights"]} }}\n')
    out.append('/-- the column labels of the frame stored by `__init__` -/\n'
               'def initCols (df : Dataset.Table) (domain : Dom) : List Attr :=\n'
               f'  ({fields["frame"]}).cols\n')

    # ---- project
    fn = need('project', ['self', 'cols'])
    tr = Tr({'cols': ('cols', 'attrs')})
    body = stmts_of(fn)
    if body and isinstance(body[0], ast.If) and ast.unparse(body[0].test) == 'type(cols) in [str, int]' \
            and [ast.unparse(x) for x in body[0].body] == ['cols = [cols]'] and not body[0].orelse:
        body = body[1:]          # shorthand spelling, exercised by the correspondence run
    lets = []
    ret = None
    for s in body:
        if isinstance(s, ast.Assign) and len(s.targets) == 1 and isinstance(s.targets[0], ast.Name):
            name = s.targets[0].id
            for kind, f in (('frame', tr.frame), ('dom', tr.dom), ('attrs', tr.attrs_list)):
                try:
                    term = f(s.value)
                except Untranslatable:
                    continue
                lets.append(f'let {name}_ := {term}')
                tr.env[name] = (name + '_', kind)
                break
            else:
                fail(s, 'unsupported assignment in project')
        elif isinstance(s, ast.Return):
            c = s.value
            if not (isinstance(c, ast.Call) and isinstance(c.func, ast.Name) and c.func.id == 'Dataset' and len(c.args) == 3 and not c.keywords):
                fail(s, 'project must return Dataset(data, domain, weights)')
            ret = f'init {tr.frame(c.args[0])} {tr.dom(c.args[1])} {tr.weights(c.args[2])}'
        else:
            fail(s, 'unsupported statement in project')
    if ret is None:
        fail(fn, 'project has no return')
    out.append('/-- `Dataset.project(cols)` -/\ndef project (D : Dataset α) (cols : List Attr) : Dataset α :=\n  '
               + '\n  '.join(lets + [ret]) + '\n')

    # ---- drop
    fn = need('drop', ['self', 'cols'])
    tr = Tr({'cols': ('cols', 'attrs')})
    body = stmts_of(fn)
    if not (len(body) == 2 and isinstance(body[0], ast.Assign) and isinstance(body[0].targets[0], ast.Name) and isinstance(body[1], ast.Return)):
        fail(fn, 'drop: expected `proj = […]; return self.project(proj)`')
    name = body[0].targets[0].id
    term = tr.attrs_list(body[0].value)
    if ast.unparse(body[1].value) != f'self.project({name})':
        fail(body[1], 'drop must return self.project(proj)')
    out.append(f'/-- `Dataset.drop(cols)` -/\ndef drop (D : Dataset α) (cols : List Attr) : Dataset α :=\n  let {name}_ := {term}\n  project D {name}_\n')

    # ---- records
    fn = fns.get('records') or fail(cls, 'records not found')
    if [ast.unparse(s) for s in stmts_of(fn)] != ['return self.df.shape[0]']:
        fail(fn, 'records must be `self.df.shape[0]`')
    out.append('/-- `Dataset.records` -/\ndef records (D : Dataset α) : Nat :=\n  (frame D).rows.length\n')

    # ---- datavector
    fn = need('datavector', ['self', 'flatten'])
    body = stmts_of(fn)
    if len(body) != 3:
        fail(fn, 'datavector: expected three statements')
    b = body[0]
    ok = (isinstance(b, ast.Assign) and ast.unparse(b.targets[0]) == 'bins' and isinstance(b.value, ast.ListComp)
          and len(b.value.generators) == 1 and ast.unparse(b.value.generators[0].iter) == 'self.domain.shape'
          and not b.value.generators[0].ifs and isinstance(b.value.generators[0].target, ast.Name))
    if not ok:
        fail(b, 'datavector: expected `bins = [range(…) for n in self.domain.shape]`')
    v = b.value.generators[0].target.id
    e = b.value.elt
    if not (isinstance(e, ast.Call) and isinstance(e.func, ast.Name) and e.func.id == 'range' and not e.keywords and 1 <= len(e.args) <= 2):
        fail(e, 'bins must be range(...)')

    def nat(n):
        if isinstance(n, ast.Name) and n.id == v:
            return v
        if isinstance(n, ast.Constant) and isinstance(n.value, int) and not isinstance(n.value, bool) and n.value >= 0:
            return str(n.value)
        if isinstance(n, ast.BinOp) and isinstance(n.op, (ast.Add, ast.Mult, ast.Sub)):
            op = {ast.Add: '+', ast.Mult: '*', ast.Sub: '-'}[type(n.op)]
            return f'({nat(n.left)} {op} {nat(n.right)})'
        fail(n, 'unsupported bin-edge arithmetic')
    if len(e.args) == 1:
        edges = f'(List.range {nat(e.args[0])})'
    else:
        lo, hi = nat(e.args[0]), nat(e.args[1])
        edges = f'(List.range\' {lo} ({hi} - {lo}))'
    h = body[1]
    if ast.unparse(h) != 'ans = np.histogramdd(self.df.values, bins, weights=self.weights)[0]':
        fail(h, 'datavector: expected `ans = np.histogramdd(self.df.values, bins, weights=self.weights)[0]`')
    if ast.unparse(body[2]) != 'return ans.flatten() if flatten else ans':
        fail(body[2], 'datavector: expected `return ans.flatten() if flatten else ans`')
    out.append('/-- `Dataset.datavector()` (flattened) -/\ndef datavector [Scalar α] (D : Dataset α) : List α :=\n'
               f'  let bins := (Dom.shape D.dom).map (fun {v} => {edges})\n'
               '  Dataset.histogramdd (frame D).rows bins D.weights\n')
    return out


HEADER = '''/- GENERATED by tools/py2ds.py from src/mbi/dataset.py — do not edit -/
import PGM.Model.Dataset
import PGM.Generated.DomainG
set_option linter.unusedVariables false
namespace PGM.DsG
open PGM
variable {α : Type}

/-- `self.df` of a dataset value: the table whose columns are the domain's attributes -/
def frame (D : Dataset α) : Dataset.Table := { cols := Dom.attrs D.dom, rows := D.rows }

'''


def main():
    ap = argparse.ArgumentParser()
    ap.add_argument('--repo', default='/repo')
    ap.add_argument('--out', required=True)
    a = ap.parse_args()
    src = open(os.path.join(a.repo, 'src', 'mbi', 'dataset.py')).read()
    try:
        defs = translate(src)
    except Untranslatable as e:
        print('py2ds: source outside the translatable subset:', e)
        return 1
    os.makedirs(a.out, exist_ok=True)
    with open(os.path.join(a.out, 'DatasetG.lean'), 'w') as f:
        f.write(HEADER + '\n'.join(defs) + '\nend PGM.DsG\n')
    print(f'py2ds: {len(defs)} definitions')
    return 0


if __name__ == '__main__':
    sys.exit(main())
