import subprocess, sys, re, os, shutil
ORIG = open('/root/work/py2gmq_trial/gm_orig.py').read()
TGT = '/root/work/py2gmq_repo/src/mbi/graphical_model.py'
LEAN = '/root/work/py2gmq_trial/lean'
MODS = sys.argv[1].split(',')
EDITS = [
 ('P1 subset test swapped', "if set(attrs) <= set(cl):", "if set(cl) <= set(attrs):"),
 ('P2 cached: drop .project(attrs)', "return self.marginals[cl].project(attrs)", "return self.marginals[cl]"),
 ('P3 elim = attrs instead of invert', "elim = self.domain.invert(attrs)", "elim = list(attrs)"),
 ('P4 bypass greedy_order (harmless)', "variable_elimination_logspace(pots, elim_order, self.total)", "variable_elimination_logspace(pots, elim, self.total)"),
 ('P5 drop final .project(attrs)', "        return ans.project(attrs)", "        return ans"),
 ('P6 hasattr guard -> True', "if hasattr(self, 'marginals'):", "if True:"),
 ('P7 cliques + [attrs] dropped', "greedy_order(self.domain, self.cliques + [attrs], elim)", "greedy_order(self.domain, self.cliques, elim)"),
 ('P8 project onto elim', "        return ans.project(attrs)", "        return ans.project(elim)"),
 ('S1 extra off by one', "extra = total - integ.sum()", "extra = total - integ.sum() + 1"),
 ('S2 extra > 0 -> >= 0', "if extra > 0:", "if extra >= 0:"),
 ('S3 extras with replacement', "np.random.choice(counts.size, extra, False, frac / frac.sum())", "np.random.choice(counts.size, extra, True, frac / frac.sum())"),
 ('S4 no normalisation', "counts *= total / counts.sum()", "counts *= total"),
 ('S5 modf outputs swapped', "frac, integ = np.modf(counts)", "integ, frac = np.modf(counts)"),
 ('S6 extras drawn uniformly from counts', "np.random.choice(counts.size, extra, False, frac / frac.sum())", "np.random.choice(counts.size, extra, False, counts / counts.sum())"),
 ('S7 no shuffle', "            np.random.shuffle(vals)\n", ""),
 ('S8 sample: size counts.size', "np.random.choice(counts.size, total, True, probas)", "np.random.choice(counts.size, counts.size, True, probas)"),
 ('S9 sample/round test inverted', "if method == 'sample':", "if method == 'round':"),
 ('T1 rows ignored', "total = int(self.total) if rows is None else rows", "total = int(self.total)"),
 ('T2 order not reversed', "order = self.elimination_order[::-1]", "order = self.elimination_order"),
 ('T3 no intersection with used', "relevant = used.intersection(set.union(*relevant))", "relevant = set.union(*relevant)"),
 ('T4 used.add dropped', "            used.add(col)\n", ""),
 ('T5 project axes order', "self.project(proj + (col,))", "self.project((col,) + proj)"),
 ('T6 group size -> total', "synthetic_col(marg[idx], group.shape[0])", "synthetic_col(marg[idx], total)"),
 ('T7 len(proj) >= 2', "if len(proj) >= 1:", "if len(proj) >= 2:"),
 ('T8 first column from order[-1]', "col = order[0]", "col = order[1]"),
 ('T9 loop over all of order', "for col in order[1:]:", "for col in order[2:]:"),
 ('K1 Domain attrs swapped', "Domain(['%s-answer'%attr, attr], Q.shape)", "Domain([attr, '%s-answer'%attr], Q.shape)"),
 ('K2 * exp(logZ)', "* self.total / np.exp(logZ)", "* self.total * np.exp(logZ)"),
 ('K3 eliminate elim[1:]', "result = variable_elimination(factors, elim)", "result = variable_elimination(factors, elim[1:])"),
 ('K4 potentials not exponentiated', "[self.potentials[cl].exp() for cl in self.cliques]", "[self.potentials[cl] for cl in self.cliques]"),
 ('K5 transpose to elim', "result.transpose(['%s-answer'%a for a in elim])", "result.transpose(['%s-answer'%a for a in elim[::-1]])"),
 ('H1 harmless: rename local elim_order', None, None),
 ('H2 harmless: rename marg -> m in synthetic_data', None, None),
 ('H3 harmless: reorder cols/total statements', "        total = int(self.total) if rows is None else rows\n        cols = self.domain.attrs\n", "        cols = self.domain.attrs\n        total = int(self.total) if rows is None else rows\n"),
 ('H4 harmless: pots before elim', None, None),
]
def apply(name, old, new):
    s = ORIG
    if name.startswith('H1'):
        return s.replace('elim_order', 'eo')
    if name.startswith('H2'):
        a = s.index('    def synthetic_data'); b = s.index('def variable_elimination_logspace')
        body = re.sub(r'\bmarg\b', 'm', s[a:b])
        return s[:a] + body + s[b:]
    if name.startswith('H4'):
        s = s.replace("        pots = list(self.potentials.values())\n", "")
        return s.replace("        elim = self.domain.invert(attrs)\n", "        pots = list(self.potentials.values())\n        elim = self.domain.invert(attrs)\n")
    assert s.count(old) == 1, (name, s.count(old))
    return s.replace(old, new)
only = sys.argv[2:] 
for name, old, new in EDITS:
    if only and not any(name.startswith(o) for o in only):
        continue
    open(TGT, 'w').write(apply(name, old, new))
    ok = True
    for t in ('py2gm', 'py2gmq'):
        r = subprocess.run(['/venv/bin/python', f'/root/work/py2gmq/tools/{t}.py', '--repo', '/root/work/py2gmq_repo', '--out', LEAN + '/PGM/Generated'], capture_output=True, text=True)
        if r.returncode != 0:
            print(f'{name}: TRANSLATOR STOP: {r.stdout.strip()[-230:]}'); ok = False; break
    if not ok:
        continue
    r = subprocess.run(['lake', 'build'] + MODS, cwd=LEAN, capture_output=True, text=True)
    if r.returncode == 0:
        print(f'{name}: PASSED (all theorems still build)')
    else:
        errs = re.findall(r'error: (PGM/[^\n]+)', r.stdout)
        broken = []
        for e in errs:
            m = re.match(r'(PGM/\S+?\.lean):(\d+)', e)
            if m:
                lines = open(os.path.join(LEAN, m.group(1))).read().split('\n')
                i = int(m.group(2)) - 1
                while i >= 0 and not re.match(r'\s*(private )?(theorem|example|def|instance)\b', lines[i]):
                    i -= 1
                nm = lines[i].split('(')[0].split(':')[0].strip() if i >= 0 else '?'
                if nm not in broken:
                    broken.append(nm)
        print(f'{name}: BREAKS {broken[:6]}')
open(TGT, 'w').write(ORIG)
for t in ('py2gm', 'py2gmq'):
    subprocess.run(['/venv/bin/python', f'/root/work/py2gmq/tools/{t}.py', '--repo', '/root/work/py2gmq_repo', '--out', LEAN + '/PGM/Generated'], capture_output=True)
