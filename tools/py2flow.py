#!/usr/bin/env python3
"""py2flow — translates the bodies of the four mechanisms into `PGM.Flow.Stmt` terms (C06).

Every Python expression becomes an opaque deterministic function of the local variables it
mentions (`Expr.call`), except for three recognised forms:
  * `E + <noise sampler>(…scale…)`            -> `release x E scale`
  * `<selection primitive>(scores, params…)`  -> `select x scores params`
  * `X.domain` of a dataset-valued variable   -> the separate public variable `X.domain`
    (`Dataset(df, dom)` assigns `X := df`, `X.domain := dom`)
Helper functions that contain primitives or construct datasets are inlined (fresh names).
Anything outside the handled subset makes the translator fail loudly.
"""
import ast, json, os, sys


class Unsupported(Exception):
    pass


NOISE = {  # callee -> how to find the scale argument
    'np.random.normal': ('kw', 'scale', 1), 'np.random.laplace': ('kw', 'scale', 1),
    'self.gaussian_noise': ('pos', 0), 'self.laplace_noise': ('pos', 0),
    'self.prng.normal': ('pos', 1), 'self.prng.laplace': ('pos', 1),
}
BUILTIN_SKIP = {'print'}


def uname(node):
    try:
        return ast.unparse(node)
    except Exception:
        return None


class Tr:
    def __init__(self, tree, cfg):
        self.tree, self.cfg = tree, cfg
        self.counter = 0
        self.select_prims = cfg['select_prims']      # callee string -> index of the scores argument
        self.inline = set(cfg.get('inline', []))
        self.spec = cfg.get('specialise', {})
        self.datasets = set()
        self.datavecs = {}
        self.funcs = {n.name: n for n in ast.walk(tree) if isinstance(n, ast.FunctionDef)}

    def fresh(self, base):
        self.counter += 1
        return f'{base}#{self.counter}'

    # ------------------------------------------------------------------ expressions
    def const_value(self, node, ren):
        """value of a specialised flag expression, or None"""
        if isinstance(node, ast.Constant):
            return ('c', node.value)
        if isinstance(node, ast.Name):
            nm = ren.get(node.id, node.id)
            if nm in self.spec:
                return ('c', self.spec[nm])
        if isinstance(node, ast.UnaryOp) and isinstance(node.op, ast.Not):
            v = self.const_value(node.operand, ren)
            if v is not None:
                return ('c', not v[1])
        return None

    def is_noise(self, node):
        return isinstance(node, ast.Call) and uname(node.func) in NOISE

    def scale_of(self, call):
        how = NOISE[uname(call.func)]
        if how[0] == 'kw':
            for kw in call.keywords:
                if kw.arg == how[1]:
                    return kw.value
            if len(call.args) > how[2]:
                return call.args[how[2]]
            raise Unsupported('noise call without a scale')
        return call.args[how[1]]

    def check_no_prim(self, node):
        for n in ast.walk(node):
            if isinstance(n, ast.Call):
                u = uname(n.func)
                if u in NOISE or u in self.select_prims or u in ('np.random.choice', 'prng.choice', 'self.prng.choice'):
                    if u in ('np.random.choice',) and self.cfg.get('allow_post_choice'):
                        continue
                    raise Unsupported(f'primitive {u} in an unsupported position (line {getattr(n, "lineno", "?")})')

    def E(self, node, ren, bound=frozenset()):
        """expression -> JSON Expr ; ren: renaming of local names ; bound: comprehension-bound names"""
        if isinstance(node, ast.Constant):
            return {'lit': repr(node.value)}
        if isinstance(node, ast.Name):
            if node.id in bound:
                return {'lit': '_bound_'}
            nm = ren.get(node.id)
            if nm is None:
                return {'lit': node.id}          # module-level name / builtin
            if nm in self.spec:
                return {'lit': repr(self.spec[nm])}
            return {'var': nm}
        if isinstance(node, ast.Attribute):
            if isinstance(node.value, ast.Name) and node.value.id == 'self':
                return {'var': 'self.' + node.attr}
            if node.attr in ('domain', 'records') and isinstance(node.value, ast.Name) and ren.get(node.value.id) in self.datasets:
                return {'var': ren[node.value.id] + '.' + node.attr}
            if node.attr in ('size', 'shape') and isinstance(node.value, ast.Name) and ren.get(node.value.id) in self.datavecs:
                # the length of `X.project(P).datavector()` is the size of the (public) domain of P
                dsname, pexpr = self.datavecs[ren[node.value.id]]
                return {'call': 'domain_size', 'args': [{'var': dsname + '.domain'}, pexpr]}
            return {'call': 'attr:' + node.attr, 'args': [self.E(node.value, ren, bound)]}
        if isinstance(node, ast.IfExp):
            cv = self.const_value(node.test, ren)
            if cv is not None:
                return self.E(node.body if cv[1] else node.orelse, ren, bound)
            return {'call': 'ifexp', 'args': [self.E(node.test, ren, bound), self.E(node.body, ren, bound), self.E(node.orelse, ren, bound)]}
        if isinstance(node, (ast.ListComp, ast.SetComp, ast.GeneratorExp, ast.DictComp)):
            b = set(bound)
            args = []
            for g in node.generators:
                args.append(self.E(g.iter, ren, frozenset(b)))
                for t in ast.walk(g.target):
                    if isinstance(t, ast.Name):
                        b.add(t.id)
                for c in g.ifs:
                    args.append(self.E(c, ren, frozenset(b)))
            if isinstance(node, ast.DictComp):
                args += [self.E(node.key, ren, frozenset(b)), self.E(node.value, ren, frozenset(b))]
            else:
                args.append(self.E(node.elt, ren, frozenset(b)))
            return {'call': 'comprehension', 'args': args}
        if isinstance(node, ast.Lambda):
            b = set(bound) | {a.arg for a in node.args.args}
            return {'call': 'lambda', 'args': [self.E(node.body, ren, frozenset(b))]}
        if isinstance(node, ast.Call):
            u = uname(node.func)
            if u in NOISE or u in self.select_prims:
                raise Unsupported(f'primitive {u} used as a sub-expression (line {node.lineno})')
            if u in self.inline:
                raise Unsupported(f'inlinable function {u} used as a sub-expression (line {node.lineno})')
            args = [self.E(a.value if isinstance(a, ast.Starred) else a, ren, bound) for a in node.args]
            args += [self.E(k.value, ren, bound) for k in node.keywords]
            f = node.func
            if isinstance(f, ast.Attribute):
                return {'call': 'meth:' + f.attr, 'args': [self.E(f.value, ren, bound)] + args}
            if isinstance(f, ast.Name) and ren.get(f.id) is not None and f.id not in bound:
                return {'call': 'apply', 'args': [{'var': ren[f.id]}] + args}
            return {'call': 'fn:' + (u or '?'), 'args': args}
        # generic structural case
        kids = []
        for child in ast.iter_child_nodes(node):
            if isinstance(child, (ast.expr_context, ast.operator, ast.unaryop, ast.cmpop, ast.boolop)):
                continue
            if isinstance(child, ast.keyword):
                child = child.value
            if isinstance(child, ast.Slice):
                for c2 in (child.lower, child.upper, child.step):
                    if c2 is not None:
                        kids.append(self.E(c2, ren, bound))
                continue
            if isinstance(child, ast.FormattedValue):
                kids.append(self.E(child.value, ren, bound))
                continue
            if isinstance(child, ast.expr):
                kids.append(self.E(child, ren, bound))
        # operators are part of the (opaque) function's name: `rounds+1` and `rounds-1` are different functions of `rounds`
        # (the loop-count theorems of C05L interpret `op:Add`, `op:Sub`, `fn:range`, `fn:len` through explicit contracts)
        if isinstance(node, (ast.BinOp, ast.UnaryOp, ast.BoolOp)):
            return {'call': 'op:' + type(node.op).__name__, 'args': kids}
        if isinstance(node, ast.Compare):
            return {'call': 'op:' + '_'.join(type(o).__name__ for o in node.ops), 'args': kids}
        return {'call': 'op:' + type(node).__name__, 'args': kids}

    # ------------------------------------------------------------------ statements
    def seq(self, stmts):
        stmts = [s for s in stmts if s != {'skip': True}]
        if not stmts:
            return {'skip': True}
        out = stmts[-1]
        for s in reversed(stmts[:-1]):
            out = {'seq': [s, out]}
        return out

    def assign_to(self, target, expr_json, ren):
        """assign an already translated expression to a Python target node"""
        if isinstance(target, ast.Name):
            nm = ren.setdefault(target.id, target.id)
            self.datasets.discard(nm)
            return [{'assign': [nm, expr_json]}]
        if isinstance(target, (ast.Tuple, ast.List)):
            tmp = self.fresh('_t')
            out = [{'assign': [tmp, expr_json]}]
            for i, el in enumerate(target.elts):
                out += self.assign_to(el, {'call': f'item{i}', 'args': [{'var': tmp}]}, ren)
            return out
        if isinstance(target, ast.Subscript):
            base = target.value
            idx = self.E(target.slice, ren)
            while isinstance(base, (ast.Attribute, ast.Subscript)) and not (isinstance(base, ast.Attribute) and isinstance(base.value, ast.Name) and base.value.id == 'self'):
                if isinstance(base, ast.Subscript):
                    idx = {'call': 'idx', 'args': [idx, self.E(base.slice, ren)]}
                base = base.value
            return self.assign_to(base, {'call': 'setitem', 'args': [self.E(base, ren), idx, expr_json]}, ren)
        if isinstance(target, ast.Attribute):
            if isinstance(target.value, ast.Name) and target.value.id == 'self':
                return [{'assign': ['self.' + target.attr, expr_json]}]
            return self.assign_to(target.value, {'call': 'setattr:' + target.attr, 'args': [self.E(target.value, ren), expr_json]}, ren)
        if isinstance(target, ast.Starred):
            return self.assign_to(target.value, expr_json, ren)
        raise Unsupported('assignment target ' + type(target).__name__)

    def assign_value(self, target, value, ren):
        """`target = value` with recognition of primitives, dataset constructors and inlined calls"""
        # release
        if isinstance(value, ast.BinOp) and isinstance(value.op, ast.Add) and (self.is_noise(value.right) or self.is_noise(value.left)):
            noise, operand = (value.right, value.left) if self.is_noise(value.right) else (value.left, value.right)
            self.check_no_prim(operand)
            if not isinstance(target, ast.Name):
                raise Unsupported('release into a non-name target')
            nm = ren.setdefault(target.id, target.id)
            return [{'release': [nm, self.E(operand, ren), self.E(self.scale_of(noise), ren)]}]
        if isinstance(value, ast.Call):
            u = uname(value.func)
            if u in self.select_prims:
                si = self.select_prims[u]
                allargs = list(value.args) + [k.value for k in value.keywords]
                scores = allargs[si]
                params = [a for i, a in enumerate(allargs) if i != si]
                if not isinstance(target, ast.Name):
                    raise Unsupported('selection into a non-name target')
                nm = ren.setdefault(target.id, target.id)
                return [{'select': [nm, self.E(scores, ren), [self.E(p, ren) for p in params]]}]
            if u in self.inline:
                return self.inline_call(target, value, ren)
            if u == 'Dataset' and isinstance(target, ast.Name) and len(value.args) >= 2:
                nm = ren.setdefault(target.id, target.id)
                out = [{'assign': [nm, self.E(value.args[0], ren)]}, {'assign': [nm + '.domain', self.E(value.args[1], ren)]}]
                self.datasets.add(nm)
                return out
        if isinstance(value, ast.Tuple) and isinstance(target, (ast.Tuple, ast.List)) and len(value.elts) == len(target.elts):
            # evaluate right-hand sides first (into temporaries), then bind
            tmps, out = [], []
            for v in value.elts:
                t = ast.Name(id=self.fresh('_rhs'), ctx=ast.Store())
                out += self.assign_value(t, v, ren)
                tmps.append(t.id)
            for t, el in zip(tmps, target.elts):
                nm = ren[t]
                if nm in self.datasets and isinstance(el, ast.Name):
                    dst = ren.setdefault(el.id, el.id)
                    out += [{'assign': [dst, {'var': nm}]}, {'assign': [dst + '.domain', {'var': nm + '.domain'}]}]
                    self.datasets.add(dst)
                else:
                    out += self.assign_to(el, {'var': nm}, ren)
            return out
        if isinstance(value, ast.Name) and ren.get(value.id) in self.datasets and isinstance(target, ast.Name):
            src = ren[value.id]
            dst = ren.setdefault(target.id, target.id)
            self.datasets.add(dst)
            return [{'assign': [dst, {'var': src}]}, {'assign': [dst + '.domain', {'var': src + '.domain'}]}]
        self.check_no_prim(value)
        out = self.assign_to(target, self.E(value, ren), ren)
        if isinstance(target, ast.Name):
            nm = ren[target.id]
            self.datavecs.pop(nm, None)
            v = value
            if (isinstance(v, ast.Call) and isinstance(v.func, ast.Attribute) and v.func.attr == 'datavector' and isinstance(v.func.value, ast.Call)
                    and isinstance(v.func.value.func, ast.Attribute) and v.func.value.func.attr == 'project'
                    and isinstance(v.func.value.func.value, ast.Name) and ren.get(v.func.value.func.value.id) in self.datasets and len(v.func.value.args) == 1):
                self.datavecs[nm] = (ren[v.func.value.func.value.id], self.E(v.func.value.args[0], ren))
        return out

    def inline_call(self, target, call, ren):
        fn = self.funcs[uname(call.func)]
        self.counter += 1
        tag = f'@{fn.name}{self.counter}'
        ren2 = {}
        out = []
        params = [a.arg for a in fn.args.args]
        defaults = dict(zip(params[len(params) - len(fn.args.defaults):], fn.args.defaults))
        given = dict(zip(params, call.args))
        for kw in call.keywords:
            given[kw.arg] = kw.value
        for p in params:
            newname = p + tag
            if p in given:
                v = given[p]
                if isinstance(v, ast.Name) and ren.get(v.id) in self.datasets:
                    src = ren[v.id]
                    out += [{'assign': [newname, {'var': src}]}, {'assign': [newname + '.domain', {'var': src + '.domain'}]}]
                    self.datasets.add(newname)
                else:
                    self.check_no_prim(v)
                    out.append({'assign': [newname, self.E(v, ren)]})
            elif p in defaults:
                out.append({'assign': [newname, self.E(defaults[p], {})]})
            else:
                raise Unsupported(f'call to {fn.name} misses argument {p}')
            ren2[p] = newname
        # local names of the callee get the tag
        for n in ast.walk(fn):
            if isinstance(n, ast.Name) and isinstance(n.ctx, ast.Store) and n.id not in ren2:
                ren2[n.id] = n.id + tag
        body = list(fn.body)
        if not body or not isinstance(body[-1], ast.Return):
            raise Unsupported(f'{fn.name}: inlining needs a single trailing return')
        for s in body[:-1]:
            if any(isinstance(n, ast.Return) for n in ast.walk(s)):
                raise Unsupported(f'{fn.name}: early return')
            out += self.S(s, ren2, entry=False)
        retv = body[-1].value
        # bind the result: translate `target = <retv>` with the callee's renaming for the value side
        out += self.bind_return(target, retv, ren, ren2)
        return out

    def bind_return(self, target, retv, ren, ren2):
        if isinstance(retv, ast.Tuple) and isinstance(target, (ast.Tuple, ast.List)) and len(retv.elts) == len(target.elts):
            out = []
            for el, v in zip(target.elts, retv.elts):
                out += self.bind_return(el, v, ren, ren2)
            return out
        tmp = ast.Name(id=self.fresh('_ret'), ctx=ast.Store())
        ren2[tmp.id] = tmp.id
        out = self.assign_value(tmp, retv, ren2)
        ren[tmp.id] = tmp.id
        if tmp.id in self.datasets and isinstance(target, ast.Name):
            dst = ren.setdefault(target.id, target.id)
            self.datasets.add(dst)
            return out + [{'assign': [dst, {'var': tmp.id}]}, {'assign': [dst + '.domain', {'var': tmp.id + '.domain'}]}]
        return out + self.assign_to(target, {'var': tmp.id}, ren)

    def S(self, s, ren, entry=True):
        if isinstance(s, ast.Expr):
            v = s.value
            if isinstance(v, ast.Constant):
                return []
            if isinstance(v, ast.Call):
                u = uname(v.func)
                if u in BUILTIN_SKIP:
                    return []
                if u in NOISE or u in self.select_prims:
                    raise Unsupported(f'primitive {u} whose outcome is discarded')
                self.check_no_prim(v)
                if isinstance(v.func, ast.Attribute) and not (isinstance(v.func.value, ast.Name) and ren.get(v.func.value.id) is None and v.func.value.id != 'self'):
                    # method call for its side effect on the receiver
                    recv = v.func.value
                    return self.assign_to(recv, self.E(v, ren), ren)
                # a call statement on a bare function (or on a module-level name) is executed for its side effects: every argument that is a
                # variable may be written by it, with a value that depends on ALL the arguments (a helper that stashes private data into a
                # list it was handed must taint that list)
                outs = []
                call_e = self.E(v, ren)
                for a in list(v.args) + [k.value for k in v.keywords]:
                    base = a
                    while isinstance(base, (ast.Attribute, ast.Subscript)):
                        base = base.value
                    if isinstance(base, ast.Name) and not isinstance(a, ast.Constant):
                        outs += self.assign_to(base, call_e, ren)
                return outs
            raise Unsupported('expression statement')
        if isinstance(s, ast.Assign):
            out = []
            for t in s.targets:
                out += self.assign_value(t, s.value, ren)
            return out
        if isinstance(s, ast.AugAssign):
            self.check_no_prim(s.value)
            cur = self.E(s.target, ren)
            return self.assign_to(s.target, {'call': 'op:' + type(s.op).__name__, 'args': [cur, self.E(s.value, ren)]}, ren)
        if isinstance(s, ast.If):
            cv = self.const_value(s.test, ren)
            if cv is not None:
                out = []
                for b in (s.body if cv[1] else s.orelse):
                    out += self.S(b, ren, entry)
                return out
            self.check_no_prim(s.test)
            ds0 = set(self.datasets)
            a = [x for b in s.body for x in self.S(b, ren, entry)]
            ds1 = set(self.datasets); self.datasets = set(ds0)
            b_ = [x for b in s.orelse for x in self.S(b, ren, entry)]
            self.datasets = ds1 & self.datasets | (ds1 & ds0) | (self.datasets & ds0)
            return [{'ite': [self.E(s.test, ren), self.seq(a), self.seq(b_)]}]
        if isinstance(s, ast.For):
            self.check_no_prim(s.iter)
            it = self.fresh('_it')
            body = self.assign_to(s.target, {'var': it}, ren)
            for b in s.body:
                body += self.S(b, ren, entry)
            return [{'forIn': [it, self.E(s.iter, ren), self.seq(body)]}]
        if isinstance(s, ast.While):
            self.check_no_prim(s.test)
            body = [x for b in s.body for x in self.S(b, ren, entry)]
            return [{'while': [self.E(s.test, ren), self.seq(body)]}]
        if isinstance(s, ast.Return):
            if not entry:
                raise Unsupported('return in inlined code')
            if s.value is None:
                return [{'ret': {'lit': 'None'}}]
            if isinstance(s.value, ast.Call) and uname(s.value.func) in self.inline:
                t = ast.Name(id=self.fresh('_retv'), ctx=ast.Store())
                return self.assign_value(t, s.value, ren) + [{'ret': {'var': ren[t.id]}}]
            self.check_no_prim(s.value)
            return [{'ret': self.E(s.value, ren)}]
        if isinstance(s, ast.Assert):
            self.check_no_prim(s.test)
            return [{'ite': [self.E(s.test, ren), {'skip': True}, {'skip': True}]}]
        if isinstance(s, ast.FunctionDef):
            # nested helper: a closure over the locals it mentions
            own = {a.arg for a in s.args.args} | {n.id for n in ast.walk(s) if isinstance(n, ast.Name) and isinstance(n.ctx, ast.Store)}
            free = sorted({n.id for n in ast.walk(s) if isinstance(n, ast.Name) and ren.get(n.id) is not None and n.id not in own})
            self.check_no_prim(s)
            nm = ren.setdefault(s.name, s.name)
            return [{'assign': [nm, {'call': 'closure', 'args': [{'var': ren[f]} for f in free]}]}]
        if isinstance(s, (ast.Pass, ast.Import, ast.ImportFrom)):
            return []
        raise Unsupported('statement ' + type(s).__name__ + f' (line {s.lineno})')

    def entry(self):
        parts = self.cfg['entry'].split('.')
        body = self.tree.body
        fn = None
        for p in parts:
            fn = next(n for n in body if isinstance(n, (ast.FunctionDef, ast.ClassDef)) and n.name == p)
            body = fn.body
        ren = {}
        env = []
        for a in fn.args.args:
            if a.arg == 'self':
                continue
            ren[a.arg] = a.arg
            if a.arg in self.cfg['private']:
                env.append((a.arg, 'H'))
                env.append((a.arg + '.domain', 'L'))
                self.datasets.add(a.arg)
            else:
                env.append((a.arg, 'L'))
        for extra in self.cfg.get('public_extra', []):
            env.append((extra, 'L'))
        if fn.args.kwarg:
            ren[fn.args.kwarg.arg] = fn.args.kwarg.arg
            env.append((fn.args.kwarg.arg, 'L'))
        for n in ast.walk(fn):
            if isinstance(n, ast.Name) and isinstance(n.ctx, ast.Store):
                ren.setdefault(n.id, n.id)
        stmts = []
        for s in fn.body:
            stmts += self.S(s, ren, entry=True)
        return self.seq(stmts), env


def lean_str(s):
    return json.dumps(s, ensure_ascii=False)


def lean_expr(e):
    if 'var' in e:
        return f'(.var {lean_str(e["var"])})'
    if 'lit' in e:
        return f'(.lit {lean_str(e["lit"])})'
    return f'(.call {lean_str(e["call"])} [{", ".join(lean_expr(a) for a in e["args"])}])'


def lean_stmt(s, ind=1):
    pad = '  ' * ind
    if 'skip' in s:
        return pad + '.skip'
    if 'assign' in s:
        return f'{pad}.assign {lean_str(s["assign"][0])} {lean_expr(s["assign"][1])}'
    if 'release' in s:
        x, op, sc = s['release']
        return f'{pad}.release {lean_str(x)} {lean_expr(op)} {lean_expr(sc)}'
    if 'select' in s:
        x, sc, ps = s['select']
        return f'{pad}.select {lean_str(x)} {lean_expr(sc)} [{", ".join(lean_expr(p) for p in ps)}]'
    if 'seq' in s:
        # flatten right-nested sequences for readability
        items, cur = [], s
        while 'seq' in cur:
            items.append(cur['seq'][0]); cur = cur['seq'][1]
        items.append(cur)
        out = lean_stmt(items[-1], ind)
        for it in reversed(items[:-1]):
            out = f'{pad}(.seq (\n{lean_stmt(it, ind + 1)}) (\n{out}))'
        return out
    if 'ite' in s:
        c, a, b = s['ite']
        return f'{pad}.ite {lean_expr(c)} (\n{lean_stmt(a, ind + 1)}) (\n{lean_stmt(b, ind + 1)})'
    if 'forIn' in s:
        x, e, b = s['forIn']
        return f'{pad}.forIn {lean_str(x)} {lean_expr(e)} (\n{lean_stmt(b, ind + 1)})'
    if 'while' in s:
        c, b = s['while']
        return f'{pad}.while {lean_expr(c)} (\n{lean_stmt(b, ind + 1)})'
    if 'ret' in s:
        return f'{pad}.ret {lean_expr(s["ret"])}'
    raise ValueError(s)


def count(s, kind):
    if kind in s:
        return 1
    n = 0
    for k in ('seq', 'ite', 'forIn', 'while'):
        if k in s:
            for part in s[k]:
                if isinstance(part, dict) and not ({'var', 'lit', 'call'} & set(part)):
                    n += count(part, kind)
    return n


CONFIGS = [
    {'name': 'mst', 'file': 'mechanisms/mst.py', 'entry': 'MST', 'private': ['data'],
     'inline': ['measure', 'compress_domain', 'select', 'transform_data'],
     'select_prims': {'exponential_mechanism': 0}, 'allow_post_choice': True},
    {'name': 'aim', 'file': 'mechanisms/aim.py', 'entry': 'AIM.run', 'private': ['data'], 'inline': [],
     'select_prims': {'self.worst_approximated': 1, 'self.exponential_mechanism': 0},
     'public_extra': ['self.rounds', 'self.rho', 'self.max_model_size', 'self.structural_zeros', 'self.epsilon', 'self.delta', 'self.bounded']},
    {'name': 'mwemBounded', 'file': 'mechanisms/mwem+pgm.py', 'entry': 'mwem_pgm', 'private': ['data'], 'inline': [],
     'select_prims': {'worst_approximated': 0}, 'specialise': {'bounded': True}, 'public_extra': ['data.records']},
    {'name': 'mwemUnbounded', 'file': 'mechanisms/mwem+pgm.py', 'entry': 'mwem_pgm', 'private': ['data'], 'inline': [],
     'select_prims': {'worst_approximated': 0}, 'specialise': {'bounded': False}},
    {'name': 'adagrid', 'file': 'mechanisms/adaptive_grid.py', 'entry': 'adagrid', 'private': ['data'], 'inline': ['select'],
     'select_prims': {'exponential_mechanism': 0}},
]


def translate_all(repo):
    out = ['/- GENERATED by tools/py2flow.py from mechanisms/*.py — do not edit -/', 'import PGM.Model.Flow',
           'set_option maxRecDepth 100000', 'namespace PGM.Gen.Flow', 'open PGM.Flow', '']
    summary = {}
    for cfg in CONFIGS:
        src = open(os.path.join(repo, cfg['file'])).read()
        tr = Tr(ast.parse(src), cfg)
        prog, env = tr.entry()
        # `X.records` of the private dataset is public under bounded adjacency only
        name = cfg['name']
        out.append(f'/-- `{cfg["file"]}` `{cfg["entry"]}`' + (f' specialised at {cfg["specialise"]}' if cfg.get('specialise') else '') + ' -/')
        out.append(f'def {name}Prog : Stmt :=\n{lean_stmt(prog)}\n')
        envs = ', '.join(f'({lean_str(x)}, .{l})' for x, l in env)
        out.append(f'/-- initial labels: the private dataset is `H`, its domain and every parameter `L` -/\ndef {name}Env : Env := [{envs}]\n')
        summary[name] = {'releases': count(prog, 'release'), 'selects': count(prog, 'select')}
    out.append('end PGM.Gen.Flow')
    return '\n'.join(out) + '\n', summary


def main():
    import argparse
    ap = argparse.ArgumentParser()
    ap.add_argument('--repo', default='/repo')
    ap.add_argument('--out', required=True)
    a = ap.parse_args()
    try:
        text, summary = translate_all(a.repo)
    except (Unsupported, StopIteration, KeyError, SyntaxError) as e:
        print('py2flow: source outside the translatable subset:', repr(e), file=sys.stderr)
        return 1
    os.makedirs(a.out, exist_ok=True)
    p = os.path.join(a.out, 'MechProgs.lean')
    if not os.path.exists(p) or open(p).read() != text:
        open(p, 'w').write(text)
    json.dump(summary, open(os.path.join(a.out, 'MechProgs.summary.json'), 'w'))
    return 0


if __name__ == '__main__':
    sys.exit(main())


# ---------------------------------------------------------------------------------------------
# diagnostic mirror of PGM.Flow.flow (not trusted; only used to explain a rejection)
def _lab(env, e):
    if 'var' in e:
        return env.get(e['var'], 'H')
    if 'lit' in e:
        return 'L'
    return 'H' if any(_lab(env, a) == 'H' for a in e['args']) else 'L'


def _join(a, b):
    keys = set(a) | set(b)
    return {k: ('L' if a.get(k, 'H') == 'L' and b.get(k, 'H') == 'L' else 'H') for k in keys}


def explain(s, env, why):
    if 'skip' in s:
        return env
    if 'assign' in s:
        env = dict(env); env[s['assign'][0]] = _lab(env, s['assign'][1]); return env
    if 'release' in s:
        x, op, sc = s['release']
        if _lab(env, sc) != 'L':
            why.append(f'release {x}: scale is secret: {json.dumps(sc)[:300]}'); return None
        env = dict(env); env[x] = 'L'; return env
    if 'select' in s:
        x, sc, ps = s['select']
        bad = [p for p in ps if _lab(env, p) != 'L']
        if bad:
            why.append(f'select {x}: secret parameter {json.dumps(bad[0])[:300]}'); return None
        env = dict(env); env[x] = 'L'; return env
    if 'seq' in s:
        e1 = explain(s['seq'][0], env, why)
        return None if e1 is None else explain(s['seq'][1], e1, why)
    if 'ite' in s:
        c, a, b = s['ite']
        if _lab(env, c) != 'L':
            why.append(f'if: secret condition {json.dumps(c)[:300]}'); return None
        ea, eb = explain(a, env, why), explain(b, env, why)
        return None if ea is None or eb is None else _join(ea, eb)
    if 'forIn' in s or 'while' in s:
        if 'forIn' in s:
            x, g, body = s['forIn']
        else:
            g, body = s['while']; x = None
        for _ in range(200):
            if _lab(env, g) != 'L':
                why.append(f'loop: secret guard/iterable {json.dumps(g)[:300]}'); return None
            e0 = dict(env)
            if x:
                e0[x] = 'L'
            e1 = explain(body, e0, why)
            if e1 is None:
                return None
            e2 = _join(env, e1)
            if all(e2.get(k, 'H') == 'L' or env.get(k, 'H') == 'H' for k in set(e2) | set(env)):
                return env
            env = e2
        why.append('loop: no fixpoint'); return None
    if 'ret' in s:
        if _lab(env, s['ret']) != 'L':
            why.append(f'return: secret value {json.dumps(s["ret"])[:300]}'); return None
        return env
    raise ValueError(s)


def explain_all(repo):
    out = {}
    for cfg in CONFIGS:
        tr = Tr(ast.parse(open(os.path.join(repo, cfg['file'])).read()), cfg)
        prog, env = tr.entry()
        why = []
        r = explain(prog, dict(env), why)
        out[cfg['name']] = 'accepted' if r is not None else why
    return out
