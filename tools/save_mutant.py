#!/usr/bin/env python3
"""tools/save_mutant.py <src-dir> <seeded-id> <property> <caught-by comma list or ''> "<needs>" ["<how the check was strengthened to catch it>"] """
import json, os, shutil, sys
src, sid, prop, caught, needs = sys.argv[1:6]
strengthened = sys.argv[6] if len(sys.argv) > 6 else ''
dst = os.path.join('/verif/seeded', sid)
os.makedirs(dst, exist_ok=True)
shutil.copy(os.path.join(src, 'patch.diff'), os.path.join(dst, 'patch.diff'))
shutil.copy(os.path.join(src, 'demo.py'), os.path.join(dst, 'demo.py'))
readme = open(os.path.join(src, 'README.md')).read() if os.path.exists(os.path.join(src, 'README.md')) else ''
meta = {'breaks_property': prop, 'needs_to_manifest': needs, 'description': readme.strip(),
        'confirmed': 'tools/try_mutant.sh: demo exits 0 on the clean tree, the 32 baseline tests pass with the patch, demo exits 1 with the patch',
        'caught_by': [c for c in caught.split(',') if c], 'ran': f'tools/try_mutant.sh seeded/{sid} ' + ' '.join(c for c in caught.split(',') if c)}
if strengthened:
    meta['strengthened'] = strengthened
json.dump(meta, open(os.path.join(dst, 'meta.json'), 'w'), indent=1)
print('saved', dst)
