"""trial edits of GraphicalModel.calculate_many_marginals for tools/py2gmq.py (BRIEF step 4).
usage: trial_py2gmq_mm.py MOD[,MOD…] [EDIT-PREFIX …]
expects: /root/work/py2gmq_mm_repo/{src,mechanisms} (scratch source tree), /root/work/py2gmq_mm_trial/lean (a copy of the lean tree
incl. .lake) — every edit is applied to a fresh copy of the original file, both translators are run into the trial tree, the modules built."""
import subprocess, sys, re, os
ROOT = '/root/work/py2gmq_mm'
REPO = '/root/work/py2gmq_mm_repo'
ORIG = open('/repo/src/mbi/graphical_model.py').read()
TGT = REPO + '/src/mbi/graphical_model.py'
LEAN = '/root/work/py2gmq_mm_trial/lean'
MODS = sys.argv[1].split(',')
EDITS = [
 ('M01 conditional key swapped', "conditional[(Cj,Ci)] = Z / Z.project(Sij)", "conditional[(Ci,Cj)] = Z / Z.project(Sij)"),
 ('M02 Z.project(Sij) dropped', "conditional[(Cj,Ci)] = Z / Z.project(Sij)", "conditional[(Cj,Ci)] = Z"),
 ('M03 pred[Cj][Ci]', "Cl = pred[Ci][Cj]", "Cl = pred[Cj][Ci]"),
 ('M04 Cl == Cj', "if Cl == Ci:", "if Cl == Cj:"),
 ('M05 S = set(Cl) - set(Ci) only', "S = set(Cl) - set(Ci) - set(Cj)", "S = set(Cl) - set(Ci)"),
 ('M06 X*Y -> X', "results[(Ci, Cj)] = results[(Cj, Ci)] = X*Y", "results[(Ci, Cj)] = results[(Cj, Ci)] = X"),
 ('M07 sort key removed', "sorted(itertools.combinations(self.cliques,2),key=lambda X:dist[X[0]][X[1]])", "itertools.combinations(self.cliques,2)"),
 ('M08 key[1]+key[0] (same set: syntactic tie)', "self.domain.canonical(key[0]+key[1])", "self.domain.canonical(key[1]+key[0])"),
 ('M09 subset test swapped', "if set(proj) <= set(attr):", "if set(attr) <= set(proj):"),
 ('M10 break removed', "                    break\n", ""),
 ('M11 fallback removed', "            if proj not in answers:\n                # just use variable elimination\n                answers[proj] = self.project(proj) \n", ""),
 ('M12 conditional[(Cl,Cj)]', "Y = conditional[(Cj,Cl)]", "Y = conditional[(Cl,Cj)]"),
 ('M13 Z = marginals[Ci]', "Z = self.marginals[Cj]", "Z = self.marginals[Ci]"),
 ('M14 symmetric store dropped', "results[(Ci, Cj)] = results[(Cj, Ci)] = X*Y", "results[(Ci, Cj)] = X*Y"),
 ('M15 sum dropped', "results[(Ci, Cj)] = results[(Cj, Ci)] = (X*Y).sum(S)", "results[(Ci, Cj)] = results[(Cj, Ci)] = X*Y"),
 ('M16 proj in answers', "if proj not in answers:", "if proj in answers:"),
 ('M17 marginals = potentials', "self.marginals = self.belief_propagation(self.potentials)", "self.marginals = self.potentials"),
 ('M18 sort by reversed pair', "key=lambda X:dist[X[0]][X[1]]", "key=lambda X:dist[X[1]][X[1]]"),
 ('M19 answer not projected', "answers[proj] = results[attr].project(proj)", "answers[proj] = results[attr]"),
 ('M20 chained targets swapped (same dict: syntactic tie)', "results[(Ci, Cj)] = results[(Cj, Ci)] = X*Y", "results[(Cj, Ci)] = results[(Ci, Cj)] = X*Y"),
 ('M21 logZ=True', "self.marginals = self.belief_propagation(self.potentials)", "self.marginals = self.belief_propagation(self.potentials, logZ=True)"),
 ('M22 weight=True', "weight=False)", "weight=True)"),
 ('H1 harmless: rename local Z -> W', None, None),
 ('H2 harmless: rename local Cl -> Ck', None, None),
 ('H3 harmless: sep / neighbors statements reordered', "        sep = self.sep_axes\n        neighbors = self.neighbors\n", "        neighbors = self.neighbors\n        sep = self.sep_axes\n"),
 ('H4 harmless: rename loop variable attr -> ky', None, None),
]
def mm(s, f):
    a = s.index('    def calculate_many_marginals'); b = s.index('    def datavector')
    return s[:a] + f(s[a:b]) + s[b:]
def apply(name, old, new):
    s = ORIG
    if name.startswith('H1'):
        return mm(s, lambda t: re.sub(r'\bZ\b', 'W', t))
    if name.startswith('H2'):
        return mm(s, lambda t: re.sub(r'\bCl\b', 'Ck', t))
    if name.startswith('H4'):
        return mm(s, lambda t: t.replace('for attr in results', 'for ky in results').replace('set(attr)', 'set(ky)').replace('results[attr]', 'results[ky]'))
    assert s.count(old) == 1, (name, s.count(old))
    return s.replace(old, new)
def translate():
    for t in ('py2gm', 'py2gmq'):
        r = subprocess.run(['/venv/bin/python', f'{ROOT}/tools/{t}.py', '--repo', REPO, '--out', LEAN + '/PGM/Generated'], capture_output=True, text=True)
        if r.returncode != 0:
            return r.stdout.strip()[-260:]
    return None
only = sys.argv[2:]
for name, old, new in EDITS:
    if only and not any(name.startswith(o) for o in only):
        continue
    open(TGT, 'w').write(apply(name, old, new))
    stop = translate()
    if stop:
        print(f'{name}: TRANSLATOR STOP: {stop}', flush=True); continue
    r = subprocess.run(['lake', 'build'] + MODS, cwd=LEAN, capture_output=True, text=True)
    if r.returncode == 0:
        print(f'{name}: PASSED (all theorems still build)', flush=True)
    else:
        errs = re.findall(r'error: (PGM/[^\n]+)', r.stdout)
        broken = []
        for e in errs:
            m = re.match(r'(PGM/\S+?\.lean):(\d+)', e)
            if m:
                lines = open(os.path.join(LEAN, m.group(1))).read().split('\n')
                i = int(m.group(2)) - 1
                while i >= 0 and not re.match(r'\s*(private )?(theorem|example|def|instance)\b', lines[i]):
                    i -= 1
                nm = lines[i].split('(')[0].split(':')[0].strip() if i >= 0 else '?'
                if nm not in broken:
                    broken.append(nm)
        print(f'{name}: BREAKS {broken[:6]}', flush=True)
open(TGT, 'w').write(ORIG)
translate()
