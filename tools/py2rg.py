#!/usr/bin/env python3
"""tools/py2rg.py --repo R --out DIR

Translates `class RegionGraph` of `src/mbi/region_graph.py` STATEMENT BY STATEMENT into Lean definitions over the factor
model (`PGM/Generated/RegionGraphG.lean`, namespace `PGM.RGG`, `import PGM.Model.GM` — core Lean only).
`PGM/Properties/C17G.lean` proves every generated definition equal to the hand model `PGM/Model/RegionGraph.lean`
(the definitions the C16 / C17 theorems are about) and re-states those theorems for the generated definitions.

Translated: `hazan_peng_shashua`, `generalized_belief_propagation`, `primal_feasibility`, `is_converged` (whole methods) and two
SLICES: lines `self.cliques = cliques; if not convex: …` of `__init__` (`initCliques`) and the last block of `build_graph`
(`self.messages`, `self.message_order`: `initMessages`).  `__init__` is also checked to dispatch `belief_propagation` to
`hazan_peng_shashua` (convex) / `generalized_belief_propagation` and to call `build_graph` between `self.cliques = cliques` and
`self.cliques = sorted(self.regions, key=len)`.
`build_graph` is translated in two parts: `closure` (lines 120-127: `set(self.cliques)`, the `while` loop as `closureWhile` by recursion on
an iteration bound `fuel`, `tuple(sorted(set(r1) & set(r2)))` = contract `RG.sortedInter`) and, from `G = nx.DiGraph()` on, four variants
`buildGraph{C,N}{M,S}` (convex / non-convex × minimal / saturated; `self.convex`, `self.minimal` decided by the variant) taking the closed
region set as an ordered list: cover edges, children / parents / descendants / ancestors, `min_edges` with `DisjointSet`, counting numbers
(the nested memoised recursion `get_counting_number` becomes `<variant>_get_counting_number` by recursion on a depth bound `fuel`, the
dictionary threaded through the calls), N / D / B of both branches (sets as repetition-free lists, `lambda`s inlined at the call), messages
and message order.  Contracts (prelude of the output / `PGM/Model/RegionGraph.lean`): `DiGraph` = node list + log of `add_edge` calls,
`nxEdges` (`G.edges` = `RG.edgesOf`), `nxNeighbors`, `nxRevNeighbors` (`G.reverse().neighbors`), `nxTCNeighbors` / `nxTCRevNeighbors`
(`nx.transitive_closure(·).neighbors` = `RG.reach`), `RG.DS` for `DisjointSet` (`find` whose value is dropped = `touch`).
Further statements: `a, b = E1, E2`; `while C: BODY`; `S.add(x)` / `S.update({x})` / `L.extend(XS)` / `G.add_edge(..)` / `ds.union(..)`;
`f = lambda r: E` (inlined at `f(x)` in the environment of the call); nested `def` only as the memoised recursion above.
Further expressions: `{x}`, `[x]`, `set(X)`, `a - b`, `a & b`, `[x] + L`, `len(X)`, `x in S`, `and` / `or`, `e[0]` / `e[1]`, list and dict comprehensions,
`itertools.combinations(X, 2)` (`GM.combos2`, a snapshot), `1.0` as a counting number = the integer 1.
Anything outside the subset below stops the translator (exit 1, file:line and the construct).

MESSAGE PASSING (`Tr`)
Types   region (a tuple of attribute names) | regions (list) | edge | edges | adj (dict region -> list of regions) |
        edict (dict edge -> collection of edges) | bdict (dict region -> collection of edges) | cnt (dict region -> number, read
        as a total function: KeyError is outside the model) | ecnt (dict edge -> number, built locally) | cvec (dict region ->
        Factor) | msgs (dict edge -> Factor) | factor | scalar | nat | pyval (a Python number OR a Factor: what `sum(...)` of
        Factors returns) | attrs | flat | bool | dom
Statements
  x = E ; x = {} (type declared per function) ; x = 0 (declared scalar / nat)
  d[k] = E                      -> GM.dictSet / CliqueVec.set: an existing key keeps its position
  d[k] -= E                     -> d[k] = d[k] - E    (factor.py is checked to define no `__isub__`)
  xs.append(E)                  -> xs ++ [E]
  if c: <stores>  (no else)     -> every name stored in the body becomes `if c then <new> else <old>`
  x += E                        -> numbers: re-binding;  a Factor: `Factor.__iadd__` IN PLACE — only accepted when `x` was bound to
                                   the result of an arithmetic expression (a fresh object), never to a dictionary entry
  if c: T = A  else: T = B      -> T = if c then A else B   (both branches are one assignment to the same target)
  if callback is not None: …    -> decided by the variant being generated (callback=None)
  for t in XS: BODY / for a, b in EDGES: BODY  -> XS.foldl over the tuple of the names bound before the loop and re-bound in BODY
  for _ in range(self.iters): BODY [if C: …; return E]   -> a definition `<f>Sweep` (BODY as a state transformer) and a
        structurally recursive `<f>Loop : Nat -> state -> result`; the statements after the loop are the base case.  The state
        is the names re-bound in BODY plus the names first bound in BODY and read afterwards (`mu`): those start unbound in
        Python (NameError when iters = 0) — the model's default `[]`, and the definition `<f>_pre` says `0 < iters`
  messages = self.messages      -> an ALIAS of the field: stores through either name update the one state variable
  self.messages = E ; return E  -> a method that stores to `self.messages` returns the pair (value, final self.messages)
Expressions
  d[k], d[a,b] (the model's default where Python raises KeyError), k in <list>, a != b, x <= y (`Scalar.le0 (x - y)`), c == 0,
  set(a) < set(b) (`ssubset`), not c, any(E for t in XS), sorted(XS, key=len) (contract `sortByLen`: stable, ascending)
  F + G, F - G, F / c, c * F (`Factor.__rmul__` is checked to delegate to `__mul__`), F + s / F - s where s = sum(...) is a
        pyval: `facAdd` / `facSub` dispatch on `np.isscalar`;  x + y, x - y, x / y on numbers (an int meets a float as a float)
  sum(E for t in XS [if c]) of Factors: the left fold of Python's `+` FROM THE INT 0 (`0 + f` is `Factor.__radd__`, checked to
        delegate to `__add__`: one extra pass `0 + values`) -> pyval;  of numbers -> `foldl Scalar.add Scalar.zero`
  F.logsumexp(attrs) / F.logsumexp() / F.exp() / F.project(a) (agg='sum' default checked) / F.datavector() (flatten=True default
        checked) / Factor.zeros(D) / self.domain.project(r) / np.log(c) / np.linalg.norm(x - y, 1) (contract `norm1`) /
        CliqueVector(d) (checked to be the plain dict constructor) / self.<translated method>(args) / float literals (exact
        dyadic value) / A if c else B
  tuple(set(a) - set(b))  -> an attribute tuple whose ORDER is unspecified in Python (set iteration); listed in `a`'s order
        (`setDiff`); it is only passed to `Factor.logsumexp(attrs)`, which reads which axes to reduce.

Python `set` iteration order is hash dependent: every definition that iterates `self.regions` takes the ordered list as an
argument; N/D/B of the minimal branch are sets of edges, read as lists.
Skipped (listed in the header of the output): show, project, wiegerinck, loh_wibisono, kikuchi_entropy, mle,
estimate_kikuchi_marginal.
"""
import argparse, ast, os, sys
from fractions import Fraction

FILE = 'region_graph.py'


class Untranslatable(Exception):
    pass


def fail(node, why, file=FILE):
    where = f'{file} line {getattr(node, "lineno", "?")}'
    text = (ast.unparse(node) if isinstance(node, ast.AST) else str(node)).split('\n')[0]
    raise Untranslatable(f'{where}: {why}: {text[:160]}')


def norm(src):
    return [ast.unparse(x) for x in ast.parse(src).body]


def is_doc(st):
    return isinstance(st, ast.Expr) and isinstance(st.value, ast.Constant) and isinstance(st.value.value, str)


def ind(text, n):
    pad = ' ' * n
    return '\n'.join(pad + l if l else l for l in text.split('\n'))


LEANTY = {'region': 'Region', 'regions': 'List Region', 'edge': 'Edge', 'edges': 'List Edge',
          'adj': 'List (Region × List Region)', 'edict': 'List (Edge × List Edge)', 'bdict': 'List (Region × List Edge)',
          'cnt': 'Region → α', 'ecnt': 'List (Edge × α)', 'cvec': 'CliqueVec α', 'msgs': 'Msgs α', 'factor': 'Factor α',
          'digraph': 'DiGraph', 'rdigraph': 'DiGraph', 'tcg': 'DiGraph', 'tcr': 'DiGraph', 'ds': 'RG.DS', 'int': 'Int',
          'cntd': 'List (Region × Int)', 'scalar': 'α', 'nat': 'Nat', 'pyval': 'PyVal α', 'attrs': 'List Attr', 'flat': 'List α', 'bool': 'Bool', 'dom': 'Dom'}
ELEM = {'regions': 'region', 'edges': 'edge'}
KEYTY = {'cntd': 'region', 'cvec': 'region', 'msgs': 'edge', 'ecnt': 'edge', 'adj': 'region', 'edict': 'edge', 'bdict': 'region', 'cnt': 'region'}
VALTY = {'cntd': 'int', 'cvec': 'factor', 'msgs': 'factor', 'ecnt': 'scalar', 'adj': 'regions', 'edict': 'edges', 'bdict': 'edges', 'cnt': 'scalar'}
GETTER = {'cntd': 'intGet', 'cvec': 'CliqueVec.get', 'msgs': 'msgGet', 'ecnt': 'numGet', 'adj': 'look', 'edict': 'look', 'bdict': 'look'}
SETTER = {'cvec': 'CliqueVec.set', 'msgs': 'GM.dictSet', 'ecnt': 'GM.dictSet', 'cntd': 'GM.dictSet', 'adj': 'GM.dictSet', 'edict': 'GM.dictSet', 'bdict': 'GM.dictSet'}
MUTABLE = ('cvec', 'msgs', 'ecnt', 'cntd', 'adj', 'edict', 'bdict')
SETLIKE = ('regions', 'edges')        # Python sets / lists of regions / edges: a set is the list of its elements without repetition
MUTATORS = ('append', 'extend', 'add', 'update', 'add_edge', 'add_nodes_from', 'add_edges_from', 'find', 'union')
DEFAULT = {'cvec': '([] : CliqueVec α)', 'msgs': '([] : Msgs α)'}


def lit(value, node):
    """a Python number literal as an exact scalar term"""
    if isinstance(value, bool) or not isinstance(value, (int, float)):
        fail(node, 'unsupported literal')
    q = Fraction(value)
    if q < 0:
        fail(node, 'negative literal')
    if q == 0:
        return 'Scalar.zero'
    num = 'Scalar.one' if q.numerator == 1 else f'(Scalar.ofNat {q.numerator})'
    return num if q.denominator == 1 else f'(Scalar.div {num} (Scalar.ofNat {q.denominator}))'


MEMO = {}       # nested memoised recursion -> the dictionary it updates


def stores(stmts):
    """python names (re)bound by a block, in order of first binding; subscript stores / augmented stores bind the container;
    `self.f = …` and `self.f[k] = …` bind 'self.f'"""
    out = []

    def add(x):
        if x not in out:
            out.append(x)

    def tgt(t):
        if isinstance(t, ast.Name):
            add(t.id)
        elif isinstance(t, ast.Attribute) and isinstance(t.value, ast.Name) and t.value.id == 'self':
            add('self.' + t.attr)
        elif isinstance(t, ast.Subscript):
            tgt(t.value)
        elif isinstance(t, (ast.Tuple, ast.List)):
            for e in t.elts:
                tgt(e)

    for st in stmts:
        for n in ast.walk(st):
            if isinstance(n, ast.Assign):
                for t in n.targets:
                    tgt(t)
            elif isinstance(n, ast.AugAssign):
                tgt(n.target)
            elif isinstance(n, ast.For):
                tgt(n.target)
            elif isinstance(n, ast.Expr) and isinstance(n.value, ast.Call) and isinstance(n.value.func, ast.Attribute) and n.value.func.attr in MUTATORS:
                tgt(n.value.func.value)
            elif isinstance(n, ast.Expr) and isinstance(n.value, ast.Call) and isinstance(n.value.func, ast.Name) and n.value.func.id in MEMO:
                add(MEMO[n.value.func.id])
    return out


def loads(stmts):
    return {n.id for st in stmts for n in ast.walk(st) if isinstance(n, ast.Name) and isinstance(n.ctx, ast.Load)}


class Tr:
    """typed translator of one block of statements of a message-passing method"""

    def __init__(self, gen, spec, env, alias=None, fresh=None):
        self.gen, self.spec = gen, spec
        self.env = dict(env)              # python name / 'self.<field>' -> (lean term, type)
        self.alias = dict(alias or {})    # local name -> 'self.<field>' it aliases
        self.fresh = set(fresh or ())     # names bound to a Factor created by the expression that bound them
        self.dead = {}
        self.lets = []
        self.lambdas = {}                 # name -> ast.Lambda (inlined at the call, in the environment of the call)
        self.memofs = {}                  # nested memoised recursions: python name -> (lean head, dictionary)

    def sub(self):
        t = Tr(self.gen, self.spec, self.env, self.alias, self.fresh)
        t.dead = dict(self.dead)
        t.lambdas = dict(self.lambdas)
        t.memofs = dict(self.memofs)
        return t

    def key(self, name):
        return self.alias.get(name, name)

    # ---------------------------------------------------------------- expressions
    def typed(self, n, *tys):
        t, ty = self.expr(n)
        if ty == 'nat' and 'scalar' in tys and 'nat' not in tys and isinstance(n, ast.Constant):
            return lit(n.value, n)
        if ty not in tys:
            fail(n, f'expected {"/".join(tys)}, got {ty}')
        return t

    def field(self, n):
        if n.attr in self.spec.get('outs', {}):
            k = 'self.' + n.attr
            if k not in self.env:
                fail(n, 'read of a field before this definition assigns it')
            return self.env[k]
        f = self.spec['fields'].get(n.attr)
        if f is None:
            fail(n, 'field of self that this definition does not declare')
        self.gen.need_field(n.attr, n)
        self.spec['used'].add(n.attr)
        k = 'self.' + n.attr
        if k in self.env:                 # a field this method stores to: its current value
            return self.env[k]
        return f

    def expr(self, n):
        if isinstance(n, ast.Name):
            if n.id in self.dead:
                fail(n, f'read of a dead name ({self.dead[n.id]})')
            k = self.key(n.id)
            if k in self.env:
                return self.env[k]
            fail(n, 'unknown name')
        if isinstance(n, ast.Constant):
            if isinstance(n.value, int) and not isinstance(n.value, bool):
                return str(n.value), 'nat'
            if isinstance(n.value, float):
                return lit(n.value, n), 'scalar'
            fail(n, 'unsupported constant')
        if isinstance(n, ast.Tuple) and len(n.elts) == 2:
            a, b = self.typed(n.elts[0], 'region'), self.typed(n.elts[1], 'region')
            return f'({a}, {b})', 'edge'
        if isinstance(n, ast.Set) and len(n.elts) == 1:                 # {x}
            t, ty = self.expr(n.elts[0])
            if ty in ('region', 'edge'):
                return f'[{t}]', ty + 's'
            fail(n, f'set literal of {ty}')
        if isinstance(n, ast.List) and len(n.elts) == 1:                # [x]
            t, ty = self.expr(n.elts[0])
            if ty in ('region', 'edge'):
                return f'[{t}]', ty + 's'
            fail(n, f'list literal of {ty}')
        if isinstance(n, ast.BoolOp):
            op = ' && ' if isinstance(n.op, ast.And) else ' || '
            return '(' + op.join(self.typed(v, 'bool') for v in n.values) + ')', 'bool'
        if isinstance(n, ast.ListComp):
            xs, ety = self.generator(n, n)
            if ety in ('region', 'edge'):
                return xs, ety + 's'
            fail(n, f'list of {ety}')
        if isinstance(n, ast.DictComp):
            g = n.generators[0] if len(n.generators) == 1 else fail(n, 'unsupported comprehension')
            if g.ifs or not isinstance(g.target, ast.Name) or not (isinstance(n.key, ast.Name) and n.key.id == g.target.id):
                fail(n, 'only {k: E for k in XS} with the key itself is supported')
            xs = self.typed(g.iter, 'regions')          # XS is a set / a list of distinct keys: one entry per element
            inner = self.sub()
            inner.env[g.target.id] = (g.target.id, 'region')
            inner.alias.pop(g.target.id, None)
            inner.dead.pop(g.target.id, None)
            et, ety = inner.expr(n.value)
            if ety == 'scalar' and isinstance(n.value, ast.Constant) and float(n.value.value) == int(n.value.value):
                et, ety = f'({int(n.value.value)} : Int)', 'int'        # counting numbers: the float 1.0 read as the integer 1 (exact)
            dty = {'regions': 'adj', 'int': 'cntd', 'edges': 'bdict'}.get(ety) or fail(n, f'dictionary of {ety}')
            return f'({xs}.map (fun {g.target.id} => ({g.target.id}, {et})))', dty
        if isinstance(n, ast.Attribute):
            if isinstance(n.value, ast.Name) and n.value.id == 'self':
                return self.field(n)
            if n.attr == 'edges':
                g = self.typed(n.value, 'digraph')
                return f'(nxEdges {g})', 'edges'
            fail(n, 'unsupported attribute')
        if isinstance(n, ast.Subscript):
            base, tb = self.expr(n.value)
            if tb == 'edge' and isinstance(n.slice, ast.Constant) and n.slice.value in (0, 1):
                return f'{base}.{n.slice.value + 1}', 'region'
            if tb in KEYTY:
                k = self.typed(n.slice, KEYTY[tb])
                if tb == 'cnt':
                    return f'({base} {k})', 'scalar'
                return f'({GETTER[tb]} {base} {k})', VALTY[tb]
            fail(n, f'unsupported subscript of {tb}')
        if isinstance(n, ast.Compare) and len(n.ops) == 1:
            return self.compare(n)
        if isinstance(n, ast.UnaryOp) and isinstance(n.op, ast.Not):
            return f'(!{self.typed(n.operand, "bool")})', 'bool'
        if isinstance(n, ast.BinOp):
            return self.binop(n)
        if isinstance(n, ast.IfExp):
            c = self.typed(n.test, 'bool')
            (a, ta), (b, tb) = self.expr(n.body), self.expr(n.orelse)
            if {ta, tb} == {'nat', 'scalar'}:       # an int literal on one side: the value is used as a number
                a = lit(n.body.value, n.body) if ta == 'nat' and isinstance(n.body, ast.Constant) else a
                b = lit(n.orelse.value, n.orelse) if tb == 'nat' and isinstance(n.orelse, ast.Constant) else b
                if (ta == 'nat' and not isinstance(n.body, ast.Constant)) or (tb == 'nat' and not isinstance(n.orelse, ast.Constant)):
                    fail(n, 'conditional expression mixing a natural and a scalar')
                ta = tb = 'scalar'
            if ta != tb:
                fail(n, f'conditional expression with branches of type {ta} / {tb}')
            return f'(if {c} then {a} else {b})', ta
        if isinstance(n, ast.Call):
            return self.call(n)
        fail(n, 'unsupported expression')

    def compare(self, n):
        op, l, r = n.ops[0], n.left, n.comparators[0]

        def is_set(x):
            return isinstance(x, ast.Call) and isinstance(x.func, ast.Name) and x.func.id == 'set' and len(x.args) == 1 and not x.keywords
        if isinstance(op, ast.Lt) and is_set(l) and is_set(r):
            a, b = self.typed(l.args[0], 'region'), self.typed(r.args[0], 'region')
            return f'(ssubset {a} {b})', 'bool'
        (a, ta), (b, tb) = self.expr(l), self.expr(r)
        if isinstance(op, (ast.In, ast.NotIn)) and ((ta == 'region' and tb == 'regions') or (ta == 'edge' and tb == 'edges')):
            return (f'(List.contains {b} {a})' if isinstance(op, ast.In) else f'(!(List.contains {b} {a}))'), 'bool'
        if isinstance(op, (ast.In, ast.NotIn)) and ta == 'region' and tb == 'cntd':
            return (f'(dictHas {b} {a})' if isinstance(op, ast.In) else f'(!(dictHas {b} {a}))'), 'bool'
        if isinstance(op, ast.Gt) and ta == tb == 'nat':
            return f'(decide ({a} > {b}))', 'bool'
        if isinstance(op, ast.NotEq) and ta == tb and ta in ('region', 'edge'):
            return f'({a} != {b})', 'bool'
        if isinstance(op, ast.Eq) and ta == tb == 'nat':
            return f'({a} == {b})', 'bool'
        if isinstance(op, ast.LtE) and ta == tb == 'scalar':
            return f'(pyLe {a} {b})', 'bool'
        fail(n, f'unsupported comparison of {ta} and {tb}')

    def binop(self, n):
        op = n.op
        (a, ta), (b, tb) = self.expr(n.left), self.expr(n.right)
        if ta == 'nat' and tb == 'scalar' and isinstance(n.left, ast.Constant):
            a, ta = lit(n.left.value, n.left), 'scalar'
        if tb == 'nat' and ta == 'scalar' and isinstance(n.right, ast.Constant):
            b, tb = lit(n.right.value, n.right), 'scalar'
        if ta == 'pyval':
            fail(n, 'a `sum(...)` of Factors as the LEFT operand (int.__add__ / Factor.__radd__ dispatch is not translated here)')
        if ta == 'factor' and tb == 'factor':
            if isinstance(op, ast.Add):
                return f'(Factor.add {a} {b})', 'factor'
            if isinstance(op, ast.Sub):
                self.gen.need_factor_method('__sub__', n)
                return f'(Factor.sub {a} {b})', 'factor'
        if ta == 'factor' and tb == 'pyval':
            if isinstance(op, ast.Add):
                return f'(facAdd {a} {b})', 'factor'
            if isinstance(op, ast.Sub):
                self.gen.need_factor_method('__sub__', n)
                return f'(facSub {a} {b})', 'factor'
        if ta == 'factor' and tb == 'scalar':
            if isinstance(op, ast.Add):
                return f'(Factor.addScalar {b} {a})', 'factor'
            if isinstance(op, ast.Sub):
                self.gen.need_factor_method('__sub__', n)
                return f'(Factor.subScalar {a} {b})', 'factor'
            if isinstance(op, ast.Div):
                self.gen.need_factor_method('__truediv__', n)
                return f'(Factor.divScalar {a} {b})', 'factor'
        if ta == 'scalar' and tb == 'factor' and isinstance(op, ast.Mult):
            self.gen.need_rdunder('mul', n)
            return f'(Factor.mulScalar {a} {b})', 'factor'
        if ta == tb == 'scalar':
            f = {ast.Add: 'add', ast.Sub: 'sub', ast.Div: 'div', ast.Mult: 'mul'}.get(type(op))
            if f:
                return f'(Scalar.{f} {a} {b})', 'scalar'
        if ta == 'scalar' and tb == 'nat' and isinstance(op, ast.Div):
            return f'(Scalar.div {a} (Scalar.ofNat {b}))', 'scalar'
        if ta == tb and ta in SETLIKE:
            if isinstance(op, ast.Sub):
                return f'(setMinus {a} {b})', ta
            if isinstance(op, ast.BitAnd):
                return f'(setInter {a} {b})', ta
            if isinstance(op, ast.Add):
                return f'({a} ++ {b})', ta
        if {ta, tb} <= {'int', 'nat'} and 'int' in (ta, tb) and isinstance(op, (ast.Sub, ast.Add)):
            return f'(({a} : Int) {"-" if isinstance(op, ast.Sub) else "+"} {b})', 'int'
        if ta == tb == 'flat' and isinstance(op, ast.Sub):
            return f'(flatSub {a} {b})', 'flat'
        fail(n, f'unsupported operator on {ta} and {tb}')

    def generator(self, g, node):
        """(list term, element type, inner translator) of `E for t in XS [if c]`"""
        if len(g.generators) != 1 or g.generators[0].is_async:
            fail(node, 'unsupported generator')
        gg = g.generators[0]
        xs, tx = self.expr(gg.iter)
        if tx not in ELEM:
            fail(node, f'generator over {tx}')
        inner = self.sub()
        if isinstance(gg.target, ast.Name):
            v = gg.target.id
            inner.env[v] = (v, ELEM[tx])
            inner.alias.pop(v, None)
            inner.dead.pop(v, None)
        elif isinstance(gg.target, ast.Tuple) and ELEM[tx] == 'edge' and len(gg.target.elts) == 2 and all(isinstance(e, ast.Name) for e in gg.target.elts):
            v = ''.join(e.id for e in gg.target.elts)
            for i, e in enumerate(gg.target.elts):
                inner.env[e.id] = (f'{v}.{i + 1}', 'region')
                inner.alias.pop(e.id, None)
                inner.dead.pop(e.id, None)
        else:
            fail(node, 'unsupported generator target')
        for c in gg.ifs:
            xs = f'({xs}.filter (fun {v} => {inner.typed(c, "bool")}))'
        et, ety = inner.expr(g.elt)
        return f'({xs}.map (fun {v} => {et}))', ety

    def call(self, n):
        f, args, kws = n.func, n.args, {k.arg: k.value for k in n.keywords}
        src = ast.unparse(f)
        if isinstance(f, ast.Name):
            if f.id == 'sum' and len(args) == 1 and not kws and isinstance(args[0], ast.GeneratorExp):
                xs, ety = self.generator(args[0], n)
                if ety == 'factor':
                    self.gen.need_rdunder('add', n)
                    return f'(pySum {xs})', 'pyval'
                if ety == 'scalar':
                    return f'({xs}.foldl Scalar.add Scalar.zero)', 'scalar'
                fail(n, f'sum of {ety}')
            if f.id == 'tuple' and len(args) == 1 and not kws and isinstance(args[0], ast.Call) and ast.unparse(args[0].func) == 'sorted' \
                    and len(args[0].args) == 1 and not args[0].keywords and isinstance(args[0].args[0], ast.BinOp) and isinstance(args[0].args[0].op, ast.BitAnd):
                b = args[0].args[0]
                if all(isinstance(x, ast.Call) and ast.unparse(x.func) == 'set' and len(x.args) == 1 and not x.keywords for x in (b.left, b.right)):
                    x, y = self.typed(b.left.args[0], 'region'), self.typed(b.right.args[0], 'region')
                    return f'(RG.sortedInter {x} {y})', 'region'       # contract: the common attribute names, sorted as strings
            if f.id == 'tuple' and len(args) == 1 and not kws:
                s = args[0]
                if isinstance(s, ast.BinOp) and isinstance(s.op, ast.Sub) and all(
                        isinstance(x, ast.Call) and isinstance(x.func, ast.Name) and x.func.id == 'set' and len(x.args) == 1 and not x.keywords
                        for x in (s.left, s.right)):
                    a, b = self.typed(s.left.args[0], 'region'), self.typed(s.right.args[0], 'region')
                    return f'(setDiff {a} {b})', 'attrset'
                fail(n, 'only tuple(set(a) - set(b)) is supported')
            if f.id == 'set' and len(args) == 1 and not kws:
                t, ty = self.expr(args[0])
                if ty in SETLIKE:
                    return f'(pySet {t})', ty
                fail(n, f'set of {ty}')
            if f.id == 'list' and len(args) == 1 and not kws:
                t, ty = self.expr(args[0])
                if ty in SETLIKE:
                    return t, ty
                fail(n, f'list of {ty}')
            if f.id == 'len' and len(args) == 1 and not kws:
                t, ty = self.expr(args[0])
                if ty in SETLIKE or ty == 'region':
                    return f'(List.length {t})', 'nat'
                fail(n, f'len of {ty}')
            if f.id == 'DisjointSet' and not args and not kws:
                return '({} : RG.DS)', 'ds'
            if f.id in self.lambdas and len(args) == 1 and not kws:
                lam = self.lambdas[f.id]
                inner = self.sub()               # the body is evaluated in the environment of the CALL (late binding)
                at, aty = self.expr(args[0])
                inner.env[lam.args.args[0].arg] = (at, aty)
                inner.alias.pop(lam.args.args[0].arg, None)
                inner.dead.pop(lam.args.args[0].arg, None)
                return inner.expr(lam.body)
            if f.id == 'sorted' and len(args) == 1 and set(kws) == {'key'} and ast.unparse(kws['key']) == 'len':
                return f'(sortByLen {self.typed(args[0], "regions")})', 'regions'      # stable, ascending
            if f.id == 'any' and len(args) == 1 and not kws and isinstance(args[0], ast.GeneratorExp):
                g = args[0]
                xs, ety = self.generator(g, n)
                if ety != 'bool':
                    fail(n, f'any over {ety}')
                return f'(List.any {xs} id)', 'bool'
            if f.id == 'CliqueVector' and len(args) == 1 and not kws:
                self.gen.need_cv_ctor(n)
                return self.typed(args[0], 'cvec'), 'cvec'
            fail(n, 'unsupported function')
        if src == 'nx.DiGraph' and not args and not kws:
            return '(DiGraph.empty)', 'digraph'
        if src == 'nx.transitive_closure' and len(args) == 1 and not kws:
            t, ty = self.expr(args[0])
            if ty in ('digraph', 'rdigraph'):
                return t, {'digraph': 'tcg', 'rdigraph': 'tcr'}[ty]
            fail(n, f'transitive_closure of {ty}')
        if src == 'itertools.combinations' and len(args) == 2 and not kws and isinstance(args[1], ast.Constant) and args[1].value == 2:
            return f'(GM.combos2 {self.typed(args[0], "regions")})', 'edges'
        if src == 'np.log' and len(args) == 1 and not kws:
            return f'(Scalar.log {self.typed(args[0], "scalar")})', 'scalar'
        if src == 'np.linalg.norm' and len(args) == 2 and not kws:
            if not (isinstance(args[1], ast.Constant) and args[1].value == 1 and type(args[1].value) is int):
                fail(n, 'only the 1-norm is translated')
            return f'(norm1 {self.typed(args[0], "flat")})', 'scalar'
        if src == 'Factor.zeros' and len(args) == 1 and not kws:
            self.gen.need_factor_method('zeros', n)
            return f'(Factor.zeros {self.typed(args[0], "dom")})', 'factor'
        if isinstance(f, ast.Attribute) and isinstance(f.value, ast.Name) and f.value.id == 'self':
            callee = self.gen.callee(f.attr, n)
            if kws or len(args) != len(callee['args']):
                fail(n, 'unsupported call of a method of self')
            ps = []
            for p, t, kind in callee['params']:
                if kind == 'self':
                    ps.append(self.field(ast.Attribute(value=f.value, attr=p, lineno=n.lineno))[0])
            ps += [self.typed(a, t) for a, (_, t) in zip(args, callee['args'])]
            return f'({callee["lean"]} ' + ' '.join(ps) + ')', callee['ret']
        if isinstance(f, ast.Attribute):
            m = f.attr
            base, tb = self.expr(f.value)
            if tb in ('digraph', 'rdigraph', 'tcg', 'tcr') and m == 'neighbors' and len(args) == 1 and not kws:
                fn = {'digraph': 'nxNeighbors', 'rdigraph': 'nxRevNeighbors', 'tcg': 'nxTCNeighbors', 'tcr': 'nxTCRevNeighbors'}[tb]
                return f'({fn} {base} {self.typed(args[0], "region")})', 'regions'
            if tb == 'digraph' and m == 'reverse' and not args and not kws:
                return base, 'rdigraph'
            if tb == 'ds' and m == 'find' and len(args) == 1 and not kws:
                return f'(RG.DS.find {base} {self.typed(args[0], "region")})', 'region'
            if tb == 'dom' and m == 'project' and len(args) == 1 and not kws:
                return f'(Dom.project {base} {self.typed(args[0], "region")})', 'dom'
            if tb == 'factor':
                if m == 'logsumexp' and not kws:
                    self.gen.need_factor_method(m, n)
                    if not args:
                        return f'(Factor.logsumexpAll {base})', 'scalar'
                    if len(args) == 1:
                        return f'(Factor.logsumexp {base} {self.typed(args[0], "attrset", "attrs")})', 'factor'
                if m == 'exp' and not args and not kws:
                    self.gen.need_factor_method(m, n)
                    return f'(Factor.exp {base})', 'factor'
                if m == 'project' and len(args) == 1 and not kws:
                    self.gen.need_default('project', 'agg', 'sum', n)
                    return f'(Factor.projectSum {base} {self.typed(args[0], "region")})', 'factor'
                if m == 'datavector' and not args and not kws:
                    self.gen.need_default('datavector', 'flatten', True, n)
                    return f'(Factor.datavector {base})', 'flat'
            fail(n, f'unsupported method `{m}` of {tb}')
        fail(n, 'unsupported call')

    # ---------------------------------------------------------------- statements
    def bind(self, name, term, ty, st, annotate=False):
        k = self.key(name)
        if ty not in LEANTY:
            fail(st, f'cannot bind a value of type {ty}')
        lean = k.replace('self.', 'self_')
        ann = f' : {LEANTY[ty]}' if annotate else ''
        self.lets.append(f'let {lean}{ann} := {term}')
        self.env[k] = (lean, ty)
        self.dead.pop(name, None)
        self.fresh.discard(name)

    def is_fresh(self, v):
        return isinstance(v, ast.BinOp) or (isinstance(v, ast.Call) and not isinstance(v.func, ast.Name))

    def store(self, tg, term, ty, st, value_node=None):
        """T = <term>"""
        if isinstance(tg, ast.Name):
            self.alias.pop(tg.id, None)
            if ty == 'attrset':
                ty = 'attrs'
            self.bind(tg.id, term, ty, st)
            if value_node is not None and ty == 'factor' and self.is_fresh(value_node):
                self.fresh.add(tg.id)
            return
        if isinstance(tg, ast.Attribute) and isinstance(tg.value, ast.Name) and tg.value.id == 'self':
            k = 'self.' + tg.attr
            if k not in self.env and tg.attr in self.spec.get('outs', {}):
                if ty != self.spec['outs'][tg.attr]:
                    fail(st, f'stores a {ty} in self.{tg.attr}')
                self.lets.append(f'let self_{tg.attr} : {LEANTY[ty]} := {term}')
                self.env[k] = ('self_' + tg.attr, ty)
                return
            if k not in self.env:
                fail(st, 'store to a field this definition does not declare as mutable')
            if ty != self.env[k][1]:
                fail(st, f'stores a {ty} in self.{tg.attr}')
            if term != self.env[k][0]:
                self.bind(k, term, ty, st)
            return
        if isinstance(tg, ast.Subscript):
            d = tg.value
            base, tb = self.expr(d)
            if tb not in MUTABLE:
                fail(st, f'store into {tb}')
            k = self.typed(tg.slice, KEYTY[tb])
            if ty == 'nat' and VALTY[tb] == 'scalar':
                fail(st, 'stores an int where a float is expected')
            if ty != VALTY[tb]:
                fail(st, f'stores a {ty} in a {tb}')
            name = d.id if isinstance(d, ast.Name) else ('self.' + d.attr if isinstance(d, ast.Attribute) else fail(st, 'unsupported store'))
            if self.key(name) not in self.env or (name.startswith('self.') and name not in self.env):
                fail(st, 'store into a dictionary that is not a local or a declared mutable field')
            self.bind(name, f'({SETTER[tb]} {base} {k} {term})', tb, st)
            return
        fail(st, 'unsupported assignment target')

    def mutator(self, c, st):
        m, tgt, args = c.func.attr, c.func.value, c.args
        cur, tc = self.expr(tgt)
        if tc == 'digraph':
            if m == 'add_nodes_from' and len(args) == 1:
                return self.store(tgt, f'(DiGraph.addNodes {cur} {self.typed(args[0], "regions")})', tc, st)
            if m == 'add_edge' and len(args) == 2:
                a, b = self.typed(args[0], 'region'), self.typed(args[1], 'region')
                return self.store(tgt, f'(DiGraph.addEdge {cur} ({a}, {b}))', tc, st)
            if m == 'add_edges_from' and len(args) == 1:
                return self.store(tgt, f'(DiGraph.addEdges {cur} {self.typed(args[0], "edges")})', tc, st)
        if tc == 'ds':
            if m == 'find' and len(args) == 1:      # a `find` whose value is dropped: registers the element (IdentityDict.__missing__)
                return self.store(tgt, f'(RG.DS.touch {cur} {self.typed(args[0], "region")})', tc, st)
            if m == 'union' and len(args) == 2:
                a, b = self.typed(args[0], 'region'), self.typed(args[1], 'region')
                return self.store(tgt, f'(RG.DS.union {cur} {a} {b})', tc, st)
        if tc in SETLIKE and len(args) == 1:
            if m == 'add':                           # a set
                return self.store(tgt, f'(setAdd {cur} {self.typed(args[0], ELEM[tc])})', tc, st)
            if m == 'update' and isinstance(args[0], ast.Set) and len(args[0].elts) == 1:
                return self.store(tgt, f'(setAdd {cur} {self.typed(args[0].elts[0], ELEM[tc])})', tc, st)
            if m == 'extend':                        # a list
                return self.store(tgt, f'({cur} ++ {self.typed(args[0], tc)})', tc, st)
        fail(st, f'unsupported method `{m}` of {tc}')

    def while_(self, st):
        """while C: BODY  ->  `<f>While : Nat -> state -> state` by recursion on an iteration bound `fuel` (exhausted: the current state)"""
        for x in ast.walk(st):
            if isinstance(x, (ast.Return, ast.Break, ast.Continue)):
                fail(x, 'return / break / continue inside a while loop')
        if 'fuel' not in self.env:
            fail(st, 'this definition has no iteration bound `fuel`')
        bound = [self.key(x) for x in stores(st.body)]
        state = [x for x in self.env if x in bound]
        if not state:
            fail(st, 'a loop that updates nothing')
        tup, sty = self.tuple_of(state)
        inner = self.sub()
        inner.lets = []
        c = inner.typed(st.test, 'bool')
        if inner.run(st.body) is not None:
            fail(st, 'return inside a while loop')
        for x in state:
            if inner.env[x][1] != self.env[x][1]:
                fail(st, f'`{x}` changes its type inside the loop')
        name = self.spec['lean'] + 'While'
        body = '\n'.join(ind(l, 6) for l in inner.lets)
        self.gen.emit(f'/-- the `while` loop of `{self.spec["py"]}` ({FILE}:{st.lineno}); state = {tup} -/\n'
                      f'def {name} : Nat → {sty} → {sty}\n  | 0, st => st\n  | fuel + 1, st =>\n    let {tup} := st\n'
                      f'    if {c} then\n{body}\n      {name} fuel {tup}\n    else st\n')
        self.lets.append(f'let {tup} := {name} fuel {tup}')
        self.kill(bound, state, [])

    def memo_def(self, fn, rest):
        """def f(r): if not r in M: M[r] = C - sum(f(s) for s in XS) ; return M[r]     (M a dictionary of the enclosing scope)"""
        a = fn.args
        if len(a.args) != 1 or a.defaults or a.vararg or a.kwarg or fn.decorator_list or len(fn.body) != 2:
            fail(fn, 'unsupported nested function')
        r = a.args[0].arg
        i, ret = fn.body
        ok = isinstance(i, ast.If) and not i.orelse and len(i.body) == 1 and isinstance(i.body[0], ast.Assign) and isinstance(ret, ast.Return)
        if ok:
            asg = i.body[0]
            tgt = asg.targets[0]
            ok = isinstance(tgt, ast.Subscript) and isinstance(tgt.value, ast.Name) and ast.unparse(tgt.slice) == r \
                and ast.unparse(i.test) == f'not {r} in {tgt.value.id}' and ast.unparse(ret.value) == f'{tgt.value.id}[{r}]'
        if ok:
            M = tgt.value.id
            v = asg.value
            ok = isinstance(v, ast.BinOp) and isinstance(v.op, (ast.Sub, ast.Add)) and isinstance(v.right, ast.Call) and ast.unparse(v.right.func) == 'sum' \
                and len(v.right.args) == 1 and isinstance(v.right.args[0], ast.GeneratorExp)
        if ok:
            g = v.right.args[0]
            ok = len(g.generators) == 1 and not g.generators[0].ifs and isinstance(g.generators[0].target, ast.Name) \
                and ast.unparse(g.elt) == f'{fn.name}({g.generators[0].target.id})'
        if not ok:
            fail(fn, 'a nested function must be the memoised recursion `if not r in M: M[r] = C ± sum(f(s) for s in XS); return M[r]`')
        if self.env.get(M, (None, None))[1] != 'cntd':
            fail(fn, f'`{M}` is not a dictionary of integers of the enclosing scope')
        inner = self.sub()
        inner.env[r] = (r, 'region')
        inner.dead.pop(r, None)
        inner.alias.pop(r, None)
        c = inner.typed(v.left, 'nat', 'int')
        xs = inner.typed(g.generators[0].iter, 'regions')
        op = '-' if isinstance(v.op, ast.Sub) else '+'
        name = self.spec['lean'] + '_' + fn.name
        free = [(self.env[k][0], LEANTY[self.env[k][1]]) for k in self.env if k != M and __import__('re').search(r'(?<![\w.])' + __import__('re').escape(self.env[k][0]) + r'(?![\w])', xs + ' ' + c)]
        ps = ''.join(f' ({a_} : {t_})' for a_, t_ in free)
        pa = ''.join(f' {a_}' for a_, _ in free)
        if name not in self.gen.emitted:
            self.gen.emitted.add(name)
            self.gen.emit(f'/-- the nested memoised recursion `{fn.name}` of `{self.spec["py"]}` ({FILE}:{fn.lineno}): the dictionary `{M}` is threaded through the calls, the sum '
                          f'is evaluated left to right from the int 0; recursion on a depth bound (exhausted: RecursionError in Python, the value 0 here) -/\n'
                          f'def {name}{ps} : Nat → List (Region × Int) → Region → Int × List (Region × Int)\n'
                          f'  | 0, {M}, {r} => (0, {M})\n'
                          f'  | fuel + 1, {M}, {r} =>\n'
                          f'    if !(dictHas {M} {r}) then\n'
                          f'      let st := {xs}.foldl (fun (st : Int × List (Region × Int)) s =>\n'
                          f'        let out := {name}{pa} fuel st.2 s\n'
                          f'        (st.1 + out.1, out.2)) (0, {M})\n'
                          f'      let {M} := GM.dictSet st.2 {r} (({c} : Int) {op} st.1)\n'
                          f'      (intGet {M} {r}, {M})\n'
                          f'    else (intGet {M} {r}, {M})\n')
        self.memofs[fn.name] = (name + pa, M)
        MEMO[fn.name] = M
        if 'fuel' not in self.env:
            fail(fn, 'this definition has no recursion-depth parameter `fuel`')

    def memo_call(self, c, st):
        name, M = self.memofs[c.func.id]
        if len(c.args) != 1 or c.keywords:
            fail(st, 'unsupported call')
        a = self.typed(c.args[0], 'region')
        self.bind(M, f'({name} fuel {self.env[M][0]} {a}).2', 'cntd', st)

    def assign(self, tg, v, st):
        if (isinstance(v, ast.Call) and ast.unparse(v) == 'set()') or (isinstance(v, (ast.Dict, ast.List)) and not (v.keys if isinstance(v, ast.Dict) else v.elts)):
            # an empty container: its type is the declared type of the name, or the value type of the dictionary it is stored in
            if isinstance(tg, ast.Name) and self.spec['locals'].get(tg.id):
                self.alias.pop(tg.id, None)
                self.bind(tg.id, '[]', self.spec['locals'][tg.id], st, annotate=True)
                return
            if isinstance(tg, ast.Subscript):
                _, tb = self.expr(tg.value)
                if tb in MUTABLE and VALTY[tb] in SETLIKE:
                    self.store(tg, '[]', VALTY[tb], st)
                    return
        if isinstance(tg, ast.Attribute) and isinstance(tg.value, ast.Name) and tg.value.id == 'self' and tg.attr in self.spec.get('outs', {}) \
                and ((isinstance(v, ast.Dict) and not v.keys) or (isinstance(v, ast.List) and not v.elts)):
            ty = self.spec['outs'][tg.attr]
            if (ty in MUTABLE) != isinstance(v, ast.Dict):
                fail(st, f'self.{tg.attr} is declared {ty}')
            self.env.pop('self.' + tg.attr, None)
            self.store(tg, '[]', ty, st)
            return
        if isinstance(tg, ast.Name):
            x = tg.id
            declared = self.spec['locals'].get(x)
            if isinstance(v, ast.Dict) and not v.keys:
                if declared not in MUTABLE:
                    fail(st, f'no declared dictionary type for `{x}`')
                self.alias.pop(x, None)
                self.bind(x, '[]', declared, st, annotate=True)
                return
            if isinstance(v, ast.Constant) and isinstance(v.value, int) and not isinstance(v.value, bool) and declared in ('scalar', 'nat'):
                self.alias.pop(x, None)
                self.bind(x, lit(v.value, v) if declared == 'scalar' else str(v.value), declared, st, annotate=True)
                return
            if isinstance(v, ast.Attribute) and isinstance(v.value, ast.Name) and v.value.id == 'self' and ('self.' + v.attr) in self.env:
                self.field(v)
                self.alias[x] = 'self.' + v.attr          # the same object: no copy
                self.dead.pop(x, None)
                return
        t, ty = self.expr(v)
        self.store(tg, t, ty, st, v)

    def augassign(self, st):
        tg, op = st.target, st.op
        cur, tc = self.expr(tg)
        if tc == 'factor':
            if isinstance(op, ast.Sub):
                self.gen.need_absent('__isub__', st)      # no __isub__: T = T.__sub__(E)
                v = ast.BinOp(left=tg, op=ast.Sub(), right=st.value, lineno=st.lineno)
                t, ty = self.binop(v)
                self.store(tg, t, ty, st, v if isinstance(tg, ast.Name) else None)
                return
            if isinstance(op, ast.Add) and isinstance(tg, ast.Name):
                self.gen.need_factor_method('__iadd__', st)
                if tg.id not in self.fresh:
                    fail(st, f'in-place `+=` on `{tg.id}`, which may be an object shared with a dictionary or an argument')
                t, ty = self.expr(st.value)              # evaluated before the update
                if ty == 'scalar':
                    self.bind(tg.id, f'(Factor.iaddScalar {cur} {t})', 'factor', st)
                elif ty == 'factor':
                    self.bind(tg.id, f'(Factor.iadd {cur} {t})', 'factor', st)
                else:
                    fail(st, f'+= with a {ty}')
                self.fresh.add(tg.id)
                return
        if tc in ('scalar', 'nat') and isinstance(tg, ast.Name) and isinstance(op, ast.Add):
            t, ty = self.expr(st.value)
            if tc == 'scalar' and ty == 'scalar':
                self.bind(tg.id, f'(Scalar.add {cur} {t})', 'scalar', st)
                return
            if tc == 'nat' and ty == 'nat':
                self.bind(tg.id, f'({cur} + {t})', 'nat', st)
                return
        fail(st, 'unsupported augmented assignment')

    def if_(self, st, rest):
        test = ast.unparse(st.test)
        if test in self.spec['consts']:
            blk = st.body if self.spec['consts'][test] else st.orelse
            return self.run(blk + rest)
        c = self.typed(st.test, 'bool')

        def single(blk):
            blk = [b for b in blk if not is_doc(b)]
            if len(blk) == 1 and isinstance(blk[0], ast.Assign) and len(blk[0].targets) == 1:
                return blk[0].targets[0], blk[0].value
            fail(st, 'each branch must be one assignment')
        (x, a), (y, b) = single(st.body), single(st.orelse)
        if ast.unparse(x) != ast.unparse(y):
            fail(st, 'the branches assign different targets')
        (ta, tya), (tb_, tyb) = self.expr(a), self.expr(b)
        if tya != tyb:
            fail(st, f'the branches have different types ({tya} / {tyb})')
        self.store(x, f'(if {c} then {ta} else {tb_})', tya, st)
        return self.run(rest)

    def run(self, stmts):
        """-> (term, type) of the returned value, or None when the block falls through"""
        stmts = [s for s in stmts if not is_doc(s)]
        for idx, st in enumerate(stmts):
            rest = stmts[idx + 1:]
            if isinstance(st, ast.Assign) and len(st.targets) == 1 and isinstance(st.targets[0], ast.Tuple) and isinstance(st.value, ast.Tuple) \
                    and len(st.targets[0].elts) == len(st.value.elts):
                # a, b = E1, E2 : the right-hand sides are evaluated first
                vals = []
                for tg, v in zip(st.targets[0].elts, st.value.elts):
                    if (isinstance(v, ast.Dict) and not v.keys) or (isinstance(v, ast.Call) and ast.unparse(v) == 'set()'):
                        vals.append(None)
                    else:
                        vals.append(self.expr(v))
                for tg, v, tv in zip(st.targets[0].elts, st.value.elts, vals):
                    if tv is None:
                        self.assign(tg, v, st)
                    else:
                        self.store(tg, tv[0], tv[1], st, v)
                continue
            if isinstance(st, ast.Assign) and len(st.targets) == 1 and isinstance(st.value, ast.Lambda) and isinstance(st.targets[0], ast.Name):
                if len(st.value.args.args) != 1:
                    fail(st, 'only one-argument lambdas')
                self.lambdas[st.targets[0].id] = st.value
                continue
            if isinstance(st, ast.Assign) and len(st.targets) == 1:
                self.assign(st.targets[0], st.value, st)
                continue
            if isinstance(st, ast.FunctionDef):
                self.memo_def(st, rest)
                continue
            if isinstance(st, ast.While) and not st.orelse:
                self.while_(st)
                continue
            if isinstance(st, ast.Expr) and isinstance(st.value, ast.Call) and isinstance(st.value.func, ast.Name) and st.value.func.id in self.memofs:
                self.memo_call(st.value, st)
                continue
            if isinstance(st, ast.Expr) and isinstance(st.value, ast.Call) and isinstance(st.value.func, ast.Attribute) \
                    and st.value.func.attr in MUTATORS and st.value.func.attr != 'append' and not st.value.keywords:
                self.mutator(st.value, st)
                continue
            if isinstance(st, ast.AugAssign):
                self.augassign(st)
                continue
            if isinstance(st, ast.Expr) and isinstance(st.value, ast.Call) and isinstance(st.value.func, ast.Attribute) \
                    and st.value.func.attr == 'append' and len(st.value.args) == 1 and not st.value.keywords:
                tgt = st.value.func.value
                cur, tc = self.expr(tgt)
                if tc not in ELEM:
                    fail(st, f'append to {tc}')
                e = self.typed(st.value.args[0], ELEM[tc])
                self.store(tgt, f'({cur} ++ [{e}])', tc, st)
                continue
            if isinstance(st, ast.If) and not st.orelse and ast.unparse(st.test) not in self.spec['consts']:
                # if c: <stores>   ->   every name stored in the body becomes `if c then <new> else <old>`
                c = self.typed(st.test, 'bool')
                inner = self.sub()
                inner.lets = []
                if inner.run(st.body) is not None:
                    fail(st, 'return inside a one-armed if')
                allst = [self.key(x) for x in stores(st.body)]
                changed = [x for x in allst if x in self.env]
                for x in allst:
                    if x not in self.env:
                        self.dead[x] = 'bound inside one branch of an if'
                if not changed:
                    fail(st, 'a one-armed if that updates nothing')
                tup, _ = self.tuple_of(changed)
                body = '\n'.join(ind(l, 2) for l in inner.lets + [tup])
                self.lets.append(f'let {tup} := if {c} then\n{body}\n  else {tup}')
                continue
            if isinstance(st, ast.If):
                return self.if_(st, rest)
            if isinstance(st, ast.For):
                if isinstance(st.iter, ast.Call) and isinstance(st.iter.func, ast.Name) and st.iter.func.id == 'range':
                    return self.for_range(st, rest)
                self.for_(st)
                continue
            if isinstance(st, ast.Return) and st.value is not None:
                if rest:
                    fail(rest[0], 'statement after return')
                return self.ret(st.value)
            fail(st, 'unsupported statement')
        return None

    def ret(self, v):
        t, ty = self.expr(v)
        if ty == 'nat' and self.spec['ret'] == 'scalar' and isinstance(v, ast.Constant):
            t, ty = lit(v.value, v), 'scalar'
        if ty != self.spec['ret']:
            fail(v, f'returns {ty}, expected {self.spec["ret"]}')
        for m in self.spec['mutates']:
            t = f'({t}, {self.env["self." + m][0]})'
        return t, ty

    def state_of(self, st, extra=()):
        bound = [self.key(x) for x in stores(st.body)]
        tn = [e.id for e in ([st.target] if isinstance(st.target, ast.Name) else st.target.elts)]
        state = [x for x in self.env if x in bound and x not in tn]
        return state + [x for x in extra if x not in state], bound, tn

    def tuple_of(self, state):
        names = [self.env[x][0] if x in self.env else x for x in state]
        tys = [LEANTY[self.env[x][1]] for x in state]
        return ('(' + ', '.join(names) + ')' if len(names) > 1 else names[0]), ' × '.join(tys)

    def for_(self, st):
        if st.orelse:
            fail(st, 'for … else')
        xs, tx = self.expr(st.iter)
        if tx not in ELEM:
            fail(st, f'loop over {tx}')
        et = ELEM[tx]
        inner = self.sub()
        inner.lets = []
        if isinstance(st.target, ast.Name):
            var, pat = st.target.id, None
            inner.env[var] = (var, et)
        elif isinstance(st.target, ast.Tuple) and et == 'edge' and len(st.target.elts) == 2 and all(isinstance(e, ast.Name) for e in st.target.elts):
            tn = [e.id for e in st.target.elts]
            var = ''.join(tn)
            pat = [f'let {tn[0]} := {var}.1', f'let {tn[1]} := {var}.2']
            for t in tn:
                inner.env[t] = (t, 'region')
        else:
            fail(st, 'unsupported loop target')
        state, bound, tnames = self.state_of(st)
        for t in tnames:
            inner.dead.pop(t, None)
            inner.alias.pop(t, None)
        if not state:
            fail(st, 'a loop that updates nothing')
        r = inner.run(st.body)
        if r is not None:
            fail(st, 'return inside a loop over a collection')
        for x in state:
            if inner.env[x][1] != self.env[x][1]:
                fail(st, f'`{x}` changes its type inside the loop')
        if inner.alias != {k: v for k, v in self.alias.items() if k not in tnames}:
            fail(st, 'aliasing changes inside the loop')
        tup, sty = self.tuple_of(state)
        svar = tup if len(state) == 1 else 'st'
        lines = [f'{xs}.foldl (fun ({svar} : {sty}) ({var} : {LEANTY[et]}) =>']
        if len(state) > 1:      # the components of the state by projection (no pattern matching: the equalities rewrite under these binders)
            names = [self.env[x][0] for x in state]
            for i, nm in enumerate(names):
                proj = 'st' + '.2' * i + ('.1' if i < len(names) - 1 else '')
                lines.append(f'  let {nm} := {proj}')
        if pat:
            lines += ['  ' + l for l in pat]
        lines += [ind(l, 2) for l in inner.lets]
        lines.append(f'  {tup}) {tup}')
        if len(state) > 1:
            self.lets.append("let st' := " + '\n  '.join(lines))
            names = [self.env[x][0] for x in state]
            for i, nm in enumerate(names):
                self.lets.append(f"let {nm} := st'" + '.2' * i + ('.1' if i < len(names) - 1 else ''))
        else:
            self.lets.append(f'let {tup} := ' + '\n  '.join(lines))
        self.kill(bound, state, tnames)

    def kill(self, bound, state, tnames):
        for x in list(bound) + list(tnames):
            if x not in state and not x.startswith('self.'):
                self.dead[x] = 'bound inside a loop (or a loop target): its value after the loop is not modelled'
                self.env.pop(x, None)
                self.fresh.discard(x)
        for x in state:
            self.fresh.discard(x)

    def for_range(self, st, rest):
        """for _ in range(N): BODY [if C: …; return E]   followed by `rest`"""
        if st.orelse or len(st.iter.args) != 1 or st.iter.keywords:
            fail(st, 'only `for _ in range(N)` is supported')
        if not (isinstance(st.target, ast.Name) and st.target.id == '_'):
            fail(st, 'the counter of a `range` loop must be `_` (unused)')
        n = self.typed(st.iter.args[0], 'nat')
        name = self.spec['lean']
        if self.spec.get('looped'):
            fail(st, 'a second `range` loop')
        self.spec['looped'] = True
        body = [s for s in st.body if not is_doc(s)]
        # constant-decided ifs first (callback)
        flat = []
        for s in body:
            if isinstance(s, ast.If) and ast.unparse(s.test) in self.spec['consts']:
                flat += s.body if self.spec['consts'][ast.unparse(s.test)] else s.orelse
            else:
                flat.append(s)
        body, exit_if = flat, None
        if body and isinstance(body[-1], ast.If) and not body[-1].orelse and body[-1].body and isinstance(body[-1].body[-1], ast.Return):
            exit_if, body = body[-1], body[:-1]
        for s in body:
            for x in ast.walk(s):
                if isinstance(x, (ast.Return, ast.Break, ast.Continue)):
                    fail(x, 'return / break / continue inside the loop body (only a final `if C: …; return E` is supported)')
        loop = ast.For(target=st.target, iter=st.iter, body=body, orelse=[], lineno=st.lineno)
        first = [x for x in stores(body) if self.key(x) not in self.env and x != '_']
        later = loads(rest) | (loads([exit_if]) if exit_if else set())
        extra = [x for x in first if x in later]
        for x in extra:
            ty = self.spec['locals'].get(x)
            if ty not in DEFAULT:
                fail(st, f'`{x}` is first bound inside the loop and read after it: no declared type')
            self.env[x] = (x, ty)
            self.spec['pre'].append((f'0 < {n}', f'`{x}` is unbound when the loop does not run (NameError)'))
        state, bound, _ = self.state_of(loop, extra)
        if not state:
            fail(st, 'a loop that updates nothing')
        tup, sty = self.tuple_of(state)
        ctx_names = [x for x in self.env if x not in state and x not in self.dead and not x.startswith('self.')
                     and x not in [p for p, _, k in self.spec['params']]]
        cands = [(p, LEANTY[t]) for p, t, k in self.spec['params'] if k != 'state'] + [(self.env[x][0], LEANTY[self.env[x][1]]) for x in ctx_names]

        def occurring(text, always=()):
            """the parameters / pre-loop locals a piece of generated text reads, in declaration order"""
            import re
            return [(a, t) for a, t in cands if a in always or re.search(r'(?<![\w.])' + re.escape(a) + r'(?![\w])', text)]
        # the sweep
        inner = self.sub()
        inner.lets = []
        if inner.run(body) is not None:
            fail(st, 'return inside the loop body')
        for x in state:
            if inner.env[x][1] != self.env[x][1]:
                fail(st, f'`{x}` changes its type inside the loop')
        if inner.alias != self.alias:
            fail(st, 'aliasing changes inside the loop')
        sweep = [f'let {tup} := st'] + inner.lets + [tup]
        sps = occurring('\n'.join(sweep))
        params, pargs = ''.join(f' ({a} : {t})' for a, t in sps), ' '.join(a for a, _ in sps)
        self.gen.emit(f'/-- the body of `for _ in range({ast.unparse(st.iter.args[0])})` of `{self.spec["py"]}` ({FILE}:{st.lineno}) as a state transformer; '
                      f'state = {tup} -/\ndef {name}Sweep{params} (st : {sty}) : {sty} :=\n  ' + '\n  '.join(ind(l, 0).replace('\n', '\n  ') for l in sweep) + '\n')
        # the loop
        after = self.sub()
        after.lets = []
        after.kill(bound, state, [])
        ex = None
        if exit_if:
            e = after.sub()
            e.lets = []
            c = e.typed(exit_if.test, 'bool')
            r = e.run(exit_if.body)
            if r is None:
                fail(exit_if, 'the exit branch does not return')
            ex = (c, e.lets, r[0])
        r = after.run(rest)
        if r is None:
            fail(st, 'no return value after the loop')
        rty = LEANTY[self.spec['ret']] + ''.join(f' × {LEANTY[self.env["self." + m][1]]}' for m in self.spec['mutates'])
        base = [f'let {tup} := st'] + after.lets + [r[0]]
        step = [f'let st := {name}Sweep {pargs} st', f'let {tup} := st']
        if ex:
            step += [f'if {ex[0]} then'] + [ind(l, 2) for l in ex[1]] + [f'  {ex[2]}', f'else {name}Loop %LARGS% n st']
        else:
            step += [f'{name}Loop %LARGS% n st']
        lps = occurring('\n'.join(base + step), always=[a for a, _ in sps])
        params, largs = ''.join(f' ({a} : {t})' for a, t in lps), ' '.join(a for a, _ in lps)
        step = [l.replace('%LARGS%', largs) for l in step]
        self.gen.emit(f'/-- `for _ in range(…)` of `{self.spec["py"]}` by recursion on the number of remaining sweeps; the base case is the code after the loop -/\n'
                      f'def {name}Loop{params} : Nat → {sty} → {rty}\n  | 0, st =>\n' + '\n'.join(ind(l, 4) for l in base)
                      + '\n  | n + 1, st =>\n' + '\n'.join(ind(l, 4) for l in step) + '\n')
        init = []
        for x in state:
            init.append(DEFAULT[self.env[x][1]] if x in extra else self.env[x][0])
        return f'{name}Loop {largs} {n} ' + ('(' + ', '.join(init) + ')' if len(init) > 1 else init[0]), self.spec['ret']


# ---------------------------------------------------------------------------- message-passing definitions
F_REG, F_CLI = ('regions', 'regions', 'self'), ('cliques', 'regions', 'self')
F_CH, F_PA = ('children', 'adj', 'self'), ('parents', 'adj', 'self')
SPECS = [
    dict(py='primal_feasibility', lean='primalFeasibility', params=[F_CLI, F_CH, ('mu', 'cvec', 'arg')], args=[('mu', 'cvec')],
         consts={}, locals={'ans': 'scalar', 'count': 'nat'}, ret='scalar', mutates=[], pyargs=(['self', 'mu'], {})),
    dict(py='is_converged', lean='isConverged', params=[F_CLI, F_CH, ('convergence', 'scalar', 'self'), ('mu', 'cvec', 'arg')], args=[('mu', 'cvec')],
         consts={}, locals={}, ret='bool', mutates=[], pyargs=(['self', 'mu'], {})),
    dict(py='hazan_peng_shashua', lean='hazanPengShashua',
         params=[('domain', 'dom', 'self'), F_REG, F_CLI, F_CH, F_PA, ('counting_numbers', 'cnt', 'self'), ('total', 'scalar', 'self'),
                 ('damping', 'scalar', 'self'), ('convergence', 'scalar', 'self'), ('iters', 'nat', 'self'), ('potentials', 'cvec', 'arg'),
                 ('messages', 'msgs', 'state')],
         args=[('potentials', 'cvec')], consts={'callback is not None': False}, locals={'pot': 'cvec', 'cc': 'ecnt', 'new': 'msgs', 'mu': 'cvec'},
         ret='cvec', mutates=['messages'], pyargs=(['self', 'potentials', 'callback'], {'callback': None}),
         doc='variant callback=None; returns (the CliqueVector, the final `self.messages`)'),
    dict(py='generalized_belief_propagation', lean='generalizedBeliefPropagation',
         params=[('domain', 'dom', 'self'), F_REG, F_CLI, ('N', 'edict', 'self'), ('D', 'edict', 'self'), ('B', 'bdict', 'self'),
                 ('message_order', 'edges', 'self'), ('total', 'scalar', 'self'), ('iters', 'nat', 'self'), ('potentials', 'cvec', 'arg'),
                 ('messages', 'msgs', 'state')],
         args=[('potentials', 'cvec')], consts={}, locals={'pot': 'cvec', 'new': 'msgs', 'marginals': 'cvec'},
         ret='cvec', mutates=['messages'], pyargs=(['self', 'potentials', 'callback'], {'callback': None}),
         doc='`callback` is not read; returns (the CliqueVector, the final `self.messages`)'),
]
SLICES = [
    dict(py='build_graph', lean='closure', slice=('regions = set(self.cliques)', 3),
         params=[('cliques', 'regions', 'self'), ('fuel', 'nat', 'arg')], args=[], consts={}, locals={}, ret=None, mutates=[], outs={}, result_local='regions',
         doc='lines 120-127: the closure of the clique set under non-empty intersections (the set as the list of its first insertions); '
             '`fuel` bounds the number of passes of the `while` loop'),
    dict(py='__init__', lean='initCliques', slice=('self.cliques = cliques', 2),
         params=[('cliques', 'regions', 'arg'), ('convex', 'bool', 'arg')], args=[], consts={}, locals={}, ret=None, mutates=[],
         outs={'cliques': 'regions'},
         doc='lines `self.cliques = cliques; if not convex: …`: the clique list handed to `build_graph`'),
    dict(py='build_graph', lean='initMessages', slice=('self.messages = {}', None),
         params=[('domain', 'dom', 'self'), ('regions', 'regions', 'arg'), ('children', 'adj', 'self')], args=[], consts={}, locals={}, ret=None,
         mutates=[], outs={'messages': 'msgs', 'message_order': 'edges'},
         doc='the last block of `build_graph`: `self.messages` (zero in both directions of every edge) and `self.message_order`; '
             '`regions` is the local set, as the ordered list of its elements; returns (self.messages, self.message_order)'),
]

BUILD_OUTS = {'children': 'adj', 'parents': 'adj', 'descendants': 'adj', 'ancestors': 'adj', 'forebears': 'adj', 'downp': 'adj', 'G': 'digraph', 'regions': 'regions', 'counting_numbers': 'cntd', 'N': 'edict', 'D': 'edict', 'B': 'bdict', 'messages': 'msgs', 'message_order': 'edges'}
BUILD_LOCALS = {'min_edges': 'edges', 'canonical': 'regions', 'moebius': 'cntd', 'N': 'edict', 'D': 'edict', 'B': 'bdict'}


def build_spec(convex, minimal):
    res = ['children', 'parents', 'descendants', 'ancestors', 'counting_numbers'] + ([] if convex else ['N', 'D', 'B']) + ['messages', 'message_order']
    return dict(py='build_graph', lean='buildGraph' + ('C' if convex else 'N') + ('M' if minimal else 'S'), slice=('G = nx.DiGraph()', None),
                params=[('domain', 'dom', 'self'), ('regions', 'regions', 'arg')] + ([] if convex else [('fuel', 'nat', 'arg')]), args=[],
                consts={'self.convex': convex, 'self.minimal': minimal}, locals=BUILD_LOCALS, ret=None, mutates=[], outs=BUILD_OUTS, result=res,
                doc=f'variant convex={convex}, minimal={minimal}: `build_graph` from `G = nx.DiGraph()` on; `regions` is the closed region set as the ordered list of '
                    'its elements' + ('' if convex else '; `fuel` bounds the depth of the memoised recursion') + '; returns (' + ', '.join('self.' + r for r in res) + ')')


SKIPPED = ['show', 'project', 'wiegerinck', 'loh_wibisono', 'kikuchi_entropy', 'mle', 'estimate_kikuchi_marginal']
# where __init__ / build_graph must set the fields the message-passing definitions take as inputs
INIT_FIELDS = {'domain': 'self.domain = domain', 'total': 'self.total = total', 'iters': 'self.iters = iters', 'convergence': 'self.convergence = convergence',
               'damping': 'self.damping = damping', 'cliques': 'self.cliques = sorted(self.regions, key=len)'}
BUILD_FIELDS = {'regions': 'self.regions = regions', 'messages': 'self.messages = {}', 'message_order': 'self.message_order = []'}


class Generator:
    def __init__(self, srcs):
        self.srcs = srcs
        tree = ast.parse(srcs[FILE])
        self.cls = next((n for n in tree.body if isinstance(n, ast.ClassDef) and n.name == 'RegionGraph'), None) \
            or fail('module', 'class RegionGraph not found')
        self.methods = {n.name: n for n in self.cls.body if isinstance(n, ast.FunctionDef)}
        self.funcs = {n.name: n for n in tree.body if isinstance(n, ast.FunctionDef)}
        self.imports = [ast.unparse(n) for n in tree.body if isinstance(n, (ast.Import, ast.ImportFrom))]
        known = set(SKIPPED) | {s['py'] for s in SPECS} | {'__init__', 'build_graph'}
        for name in list(self.methods) + list(self.funcs):
            if name not in known:
                fail(self.methods.get(name) or self.funcs.get(name), 'a function this translator neither translates nor lists as skipped')
        for need in ('import numpy as np', 'from mbi import Domain, Factor, CliqueVector', 'import itertools', 'import networkx as nx',
                     'from disjoint_set import DisjointSet'):
            if need not in self.imports:
                fail('module', f'the module no longer says `{need}`')
        self.out = []
        self.emitted = set()
        self.done = {}
        self._cache = {}

    def emit(self, text):
        self.out.append(text)

    # ---- facts about the other modules the translation relies on: each is re-read from the source
    def _cls(self, file, cname):
        key = (file, cname)
        if key not in self._cache:
            src = self.srcs.get(file)
            if src is None:
                fail(cname, 'source file missing', file)
            c = next((n for n in ast.parse(src).body if isinstance(n, ast.ClassDef) and n.name == cname), None) or fail(cname, 'class not found', file)
            self._cache[key] = {f.name: f for f in c.body if isinstance(f, ast.FunctionDef)}
        return self._cache[key]

    def _body(self, file, cname, meth, node):
        fn = self._cls(file, cname).get(meth) or fail(node, f'{cname}.{meth} not found', file)
        return fn, [ast.unparse(s) for s in fn.body if not is_doc(s)]

    def need_field(self, field, node):
        want = INIT_FIELDS.get(field)
        if want is not None:
            init = self.methods.get('__init__') or fail(node, '__init__ not found')
            if want not in [ast.unparse(s) for s in init.body]:
                fail(node, f'__init__ no longer says `{want}`')
        want = BUILD_FIELDS.get(field)
        if want is not None:
            bg = self.methods.get('build_graph') or fail(node, 'build_graph not found')
            if want not in [ast.unparse(s) for s in bg.body]:
                fail(node, f'build_graph no longer says `{want}`')

    def need_rdunder(self, op, node):
        fn, body = self._body('factor.py', 'Factor', f'__r{op}__', node)
        if body != norm(f'return self.__{op}__(other)'):
            fail(fn, f'Factor.__r{op}__ no longer delegates to __{op}__', 'factor.py')

    def need_factor_method(self, m, node):
        self._body('factor.py', 'Factor', m, node)

    def need_absent(self, m, node):
        if m in self._cls('factor.py', 'Factor'):
            fail(node, f'Factor now defines {m}: the augmented assignment is no longer `T = T - E`')

    def need_default(self, meth, param, value, node):
        fn, _ = self._body('factor.py', 'Factor', meth, node)
        names = [a.arg for a in fn.args.args]
        ds = dict(zip(names[len(names) - len(fn.args.defaults):], fn.args.defaults))
        d = ds.get(param)
        if not (isinstance(d, ast.Constant) and d.value == value and type(d.value) is type(value)):
            fail(fn, f'Factor.{meth}: the default of `{param}` is no longer {value!r}', 'factor.py')

    def need_cv_ctor(self, node):
        fn, body = self._body('clique_vector.py', 'CliqueVector', '__init__', node)
        if body != norm('self.dictionary = dictionary\ndict.__init__(self, dictionary)'):
            fail(fn, 'CliqueVector.__init__ is not the plain dict constructor', 'clique_vector.py')

    def callee(self, name, node):
        if name not in self.done:
            fail(node, 'call of a method of self that is not translated (before this one)')
        return self.done[name]

    def param_text(self, spec):
        return ' '.join(f'({p} : {LEANTY[t]})' for p, t, k in spec['params'])

    # ---- one definition
    def one(self, spec):
        spec = dict(spec)
        py = spec['py']
        fn = self.methods.get(py) or fail('module', f'{py} not found')
        a = fn.args
        if 'pyargs' in spec:
            names, defaults = spec['pyargs']
            if [x.arg for x in a.args] != names or a.vararg or a.kwarg or a.kwonlyargs or a.posonlyargs or fn.decorator_list:
                fail(fn, f'signature changed: {[x.arg for x in a.args]}')
            ds = dict(zip(names[len(names) - len(a.defaults):], a.defaults))
            if set(ds) != set(defaults) or any(not (isinstance(ds[k], ast.Constant) and ds[k].value is v) for k, v in defaults.items()):
                fail(fn, 'defaults changed')
        stmts = [s for s in fn.body if not is_doc(s)]
        if 'slice' in spec:
            start, count = spec['slice']
            idx = [i for i, s in enumerate(stmts) if ast.unparse(s) == start]
            if len(idx) != 1:
                fail(fn, f'expected exactly one statement `{start}` at the top level of {py}, found {len(idx)}')
            stmts = stmts[idx[0]:] if count is None else stmts[idx[0]:idx[0] + count]
            rest = [] if count is None else [s for s in fn.body if not is_doc(s)][idx[0] + count:]
            # nothing after the slice may re-assign what it computes
            for out in spec.get('outs', {}):
                if ('self.' + out) in stores(rest) and not (py == '__init__' and out == 'cliques'):
                    fail(fn, f'self.{out} is assigned again after the translated block')
        spec['fields'], spec['used'], spec['pre'] = {}, set(), []
        env = {}
        for p, t, kind in spec['params']:
            if kind == 'self':
                spec['fields'][p] = (p, t)
            elif kind == 'state':
                spec['fields'][p] = ('self_' + p, t)
                env['self.' + p] = ('self_' + p, t)
            else:
                env[p] = (p, t)
        # `callback` may only occur in tests decided by the variant
        tr = Tr(self, spec, env)
        tr.spec['params'] = [(('self_' + p) if k == 'state' else p, t, k) for p, t, k in spec['params']]
        spec['params'] = tr.spec['params']
        spec['fields'].update({p[5:]: (p, t) for p, t, k in spec['params'] if k == 'state'})
        r = tr.run(stmts)
        if spec['ret'] is None:
            if r is not None:
                fail(fn, 'unexpected return')
            if spec.get('result_local'):
                x = spec['result_local']
                self.emit(f'/-- `RegionGraph.{py}` ({FILE}:{fn.lineno}) — {spec["doc"]} -/\ndef {spec["lean"]} {self.param_text(spec)} : {LEANTY[tr.env[x][1]]} :=\n  '
                          + '\n  '.join(ind(l, 0).replace('\n', '\n  ') for l in tr.lets + [tr.env[x][0]]) + '\n')
                return
            outs = list(spec.get('result') or spec['outs'])
            for o in outs:
                if ('self.' + o) not in tr.env:
                    fail(fn, f'self.{o} is not assigned')
            r = ('(' + ', '.join(tr.env['self.' + o][0] for o in outs) + ')' if len(outs) > 1 else tr.env['self.' + outs[0]][0], None)
        elif r is None:
            fail(fn, 'no return value on this path')
        declared = {(p[5:] if k == 'state' else p) for p, _, k in spec['params'] if k in ('self', 'state')}
        if spec['used'] - declared:
            fail(fn, f'uses undeclared fields {spec["used"] - declared}')
        if declared - spec['used']:
            fail(fn, f'no longer reads self.{sorted(declared - spec["used"])[0]}')
        if spec['ret'] is None:
            rty = ' × '.join(LEANTY[spec['outs'][o]] for o in (spec.get('result') or spec['outs']))
        else:
            rty = LEANTY[spec['ret']] + ''.join(f' × {LEANTY[t]}' for p, t, k in spec['params'] if k == 'state')
        doc = f'`RegionGraph.{py}` ({FILE}:{fn.lineno})' + (f' — {spec["doc"]}' if spec.get('doc') else '')
        text = '\n  '.join(ind(l, 0).replace('\n', '\n  ') for l in tr.lets + [r[0]])
        self.emit(f'/-- {doc} -/\ndef {spec["lean"]} {self.param_text(spec)} : {rty} :=\n  {text}\n')
        if spec['pre']:
            conds = sorted({c for c, _ in spec['pre']})
            why = '; '.join(sorted({w for _, w in spec['pre']}))
            self.emit(f'/-- precondition of `{py}`: {why} -/\ndef {spec["lean"]}_pre (iters : Nat) : Bool := ' + ' && '.join(f'decide ({c})' for c in conds) + '\n')
        self.done[py] = spec

    def run(self):
        for spec in SPECS + SLICES + [build_spec(c, m) for c in (True, False) for m in (True, False)]:
            self.one(spec)
        self.check_init()
        return self.out

    def check_init(self):
        """facts of __init__ the definitions rely on: the oracle dispatch and the order of construction"""
        init = self.methods.get('__init__') or fail('module', '__init__ not found')
        body = [ast.unparse(s) for s in init.body if not is_doc(s)]
        want = norm('if convex:\n    self.belief_propagation = self.hazan_peng_shashua\nelse:\n    self.belief_propagation = self.generalized_belief_propagation')[0]
        if want not in body:
            fail(init, '__init__ no longer dispatches `belief_propagation` to hazan_peng_shashua (convex) / generalized_belief_propagation')
        for a, b in (('self.cliques = cliques', 'self.build_graph()'), ('self.build_graph()', 'self.cliques = sorted(self.regions, key=len)'),
                     ('self.minimal = minimal', 'self.build_graph()'), ('self.convex = convex', 'self.build_graph()')):
            if a not in body or b not in body or body.index(a) > body.index(b):
                fail(init, f'__init__ no longer executes `{a}` before `{b}`')


HEADER = '''/- GENERATED by tools/py2rg.py from src/mbi/region_graph.py — do not edit
   Statement-level translation of `RegionGraph.primal_feasibility`, `is_converged`, `hazan_peng_shashua` (callback=None),
   `generalized_belief_propagation`%BUILD%.
   Python dictionaries are association lists in insertion order; `d[k] = v` keeps the position of an existing key; a read of an
   absent key (KeyError in Python) returns the model's default.  `self.regions` is a Python `set` whose iteration order depends on
   the hash seed: it is the ordered list `regions`.  `self.messages`, which persists between calls and is updated in place,
   is an explicit argument (`self_messages`) and the second component of the result.
   `for _ in range(self.iters)` is `<f>Loop` (recursion on the remaining sweeps) over `<f>Sweep` (one pass of the body).
   Unordered values: `tuple(set(a) - set(b))` is listed in `a`'s order (`setDiff`); it is only passed to `Factor.logsumexp(attrs)`.
   NOT translated: %SKIPPED%. -/
import PGM.Model.GM
import PGM.Model.RegionGraph
set_option linter.unusedVariables false
namespace PGM.RGG
open PGM

/-! ## fixed prelude: Python values and contracts -/

abbrev Region := JT.Clique
abbrev Edge := Region × Region
abbrev Msgs (α : Type) := List (Edge × Factor α)

/-- what `sum(<generator of Factors>)` returns: the int `0` it starts from, or a Factor -/
inductive PyVal (α : Type) where
  | num (c : α)
  | fac (f : Factor α)

variable {α : Type} [Scalar α]

/-- `x + y` by Python's dispatch: `number + factor` is `int.__add__` -> NotImplemented -> `Factor.__radd__` -> `Factor.__add__`
(scalar branch, `Factor(domain, other + values)`); `factor + number` is the same branch; `factor + factor` is `Factor.add` -/
def PyVal.add : PyVal α → PyVal α → PyVal α
  | .num a, .num b => .num (Scalar.add a b)
  | .num c, .fac f => .fac (Factor.addScalar c f)
  | .fac f, .num c => .fac (Factor.addScalar c f)
  | .fac f, .fac g => .fac (Factor.add f g)

/-- `sum(fs)` = `functools.reduce(operator.add, fs, 0)` -/
def pySum (fs : List (Factor α)) : PyVal α := fs.foldl (fun acc f => PyVal.add acc (.fac f)) (.num Scalar.zero)

/-- `F + v`, `Factor.__add__`: the `np.isscalar(other)` branch or the Factor branch -/
def facAdd (x : Factor α) : PyVal α → Factor α
  | .num c => Factor.addScalar c x
  | .fac g => Factor.add x g

/-- `F - v`, `Factor.__sub__`: the `np.isscalar(other)` branch (`values - other`) or the Factor branch (with its `-inf` rule) -/
def facSub (x : Factor α) : PyVal α → Factor α
  | .num c => Factor.subScalar x c
  | .fac g => Factor.sub x g

/-- `messages[k]` (KeyError in Python when absent: the model's default) -/
def msgGet (m : Msgs α) (k : Edge) : Factor α := (List.lookup k m).getD (Factor.zeros [])

/-- `cc[k]` for a dictionary of numbers -/
def numGet (m : List (Edge × α)) (k : Edge) : α := (List.lookup k m).getD default

/-- `d[k]` for a dictionary of lists (adjacency, N / D / B) -/
def look {κ β : Type} [BEq κ] (d : List (κ × List β)) (k : κ) : List β := (d.lookup k).getD []

/-- `tuple(set(a) - set(b))`, listed in `a`'s order without repetition -/
def setDiff (a b : Region) : List Attr :=
  (a.filter (fun x => !b.contains x)).foldl (fun acc x => if acc.contains x then acc else acc ++ [x]) []

/-- `set(a) < set(b)` on tuples of attribute names -/
def ssubset (a b : Region) : Bool := JT.subset a b && !JT.subset b a

/-- contract of `sorted(xs, key=len)`: stable, ascending (insertion from the left keeps equal keys in order) -/
def sortByLen (l : List Region) : List Region := Dom.sortBy (fun r => r.length) l

/-! ### Python sets of regions / edges: the list of the elements without repetition -/

/-- `set(xs)` -/
def pySet {β : Type} [BEq β] (l : List β) : List β := RG.dedup l
/-- `s.add(x)` / `s.update({x})` -/
def setAdd {β : Type} [BEq β] (s : List β) (x : β) : List β := if s.contains x then s else s ++ [x]
/-- `a - b` -/
def setMinus {β : Type} [BEq β] (a b : List β) : List β := a.filter (fun x => !b.contains x)
/-- `a & b` -/
def setInter {β : Type} [BEq β] (a b : List β) : List β := a.filter (fun x => b.contains x)
/-- `m[k]` / `k in m` for a dictionary of integers -/
def intGet (m : List (Region × Int)) (k : Region) : Int := (m.lookup k).getD 0
def dictHas (m : List (Region × Int)) (k : Region) : Bool := (m.lookup k).isSome

/-! ### contracts of `networkx` (insertion-ordered adjacency; `PGM/Model/RegionGraph.lean`: `edgesOf`, `reach`) and of `disjoint_set`
(`RG.DS`: `find` follows parent pointers, `union x y` re-points the root of `x` to the root of `y`; a `find` whose value is dropped
registers its argument) -/

/-- a `nx.DiGraph`: its nodes in insertion order and the log of the `add_edge` calls (on nodes that are present) -/
structure DiGraph where
  nodes : List Region
  log : List Edge
def DiGraph.empty : DiGraph := ⟨[], []⟩
def DiGraph.addNodes (g : DiGraph) (rs : List Region) : DiGraph := ⟨g.nodes ++ rs.filter (fun r => !g.nodes.contains r), g.log⟩
def DiGraph.addEdge (g : DiGraph) (e : Edge) : DiGraph := ⟨g.nodes, g.log ++ [e]⟩
def DiGraph.addEdges (g : DiGraph) (es : List Edge) : DiGraph := ⟨g.nodes, g.log ++ es⟩
/-- `G.edges`: node-major, each adjacency in insertion order, a repeated edge once -/
def nxEdges (g : DiGraph) : List Edge := RG.edgesOf g.nodes g.log
/-- `list(G.neighbors(r))` -/
def nxNeighbors (g : DiGraph) (r : Region) : List Region := ((nxEdges g).filter (fun e => e.1 == r)).map Prod.snd
/-- `list(G.reverse().neighbors(r))`: `reverse` re-inserts the edges in `G.edges` order -/
def nxRevNeighbors (g : DiGraph) (r : Region) : List Region := ((nxEdges g).filter (fun e => e.2 == r)).map Prod.fst
/-- `list(nx.transitive_closure(G).neighbors(r))`: the nodes reachable by a non-empty path, in node order -/
def nxTCNeighbors (g : DiGraph) (r : Region) : List Region := RG.reach g.nodes (g.nodes.map (fun u => (u, nxNeighbors g u))) r
/-- `list(nx.transitive_closure(G.reverse()).neighbors(r))` -/
def nxTCRevNeighbors (g : DiGraph) (r : Region) : List Region := RG.reach g.nodes (g.nodes.map (fun u => (u, nxRevNeighbors g u))) r

/-- `x - y` on flat numpy vectors of equal length -/
def flatSub (x y : List α) : List α := List.zipWith Scalar.sub x y

/-- contract of `np.linalg.norm(v, 1)`: the sum of the absolute values (`|d| = max(d, -d)`) -/
def norm1 (v : List α) : α := Scalar.sum (v.map (fun d => Scalar.max d (Scalar.neg d)))

/-- `x <= y` on floats -/
def pyLe (x y : α) : Bool := Scalar.le0 (Scalar.sub x y)

/-! ## the translated definitions -/

'''


def main():
    ap = argparse.ArgumentParser()
    ap.add_argument('--repo', default='/repo')
    ap.add_argument('--out', required=True)
    a = ap.parse_args()
    try:
        srcs = {}
        for f in (FILE, 'factor.py', 'domain.py', 'clique_vector.py'):
            p = os.path.join(a.repo, 'src', 'mbi', f)
            if os.path.exists(p):
                srcs[f] = open(p).read()
        if FILE not in srcs:
            raise OSError(f'src/mbi/{FILE} not found')
        gen = Generator(srcs)
        defs = gen.run()
        build = ', the slices `initCliques` (of `__init__`), `closure`, `initMessages` and the four variants `buildGraph{C,N}{M,S}` of `build_graph`'
    except Untranslatable as e:
        print('py2rg: source outside the translatable subset:', e)
        return 1
    except (OSError, SyntaxError) as e:
        print('py2rg: source outside the translatable subset:', f'cannot read/parse the source: {e}')
        return 1
    os.makedirs(a.out, exist_ok=True)
    with open(os.path.join(a.out, 'RegionGraphG.lean'), 'w') as f:
        f.write(HEADER.replace('%BUILD%', build).replace('%SKIPPED%', ', '.join(SKIPPED + ['the rest of __init__ (checked: dispatch, order of construction)'])) + '\n'.join(defs) + '\nend PGM.RGG\n')
    print(f'py2rg: {len(defs)} definitions')
    return 0


if __name__ == '__main__':
    sys.exit(main())
