import os, re, shutil, subprocess, sys
ROOT='/root/work/e2e-c18'; SCR='/root/work/e2e-c18_repo'
L='src/mbi/local_inference.py'; R='src/mbi/region_graph.py'; G='src/mbi/factor_graph.py'
EDITS=[
 ('L-E05 drop potentials restore', L, "model.potentials = theta0", "pass"),
 ('L-E19 convex flag', L, "model = RegionGraph(self.domain, cliques, total, convex=True, iters=self.inner_iters)", "model = RegionGraph(self.domain, cliques, total, convex=False, iters=self.inner_iters)"),
 ('L-E16 md: potentials = mu', L, "self.model.potentials = theta", "self.model.potentials = mu"),
 ('R-E08 hps: normalisation to total dropped', R, "                belief += np.log(self.total) - belief.logsumexp()\n                mu[r] = belief.exp()", "                belief += 0.0 - belief.logsumexp()\n                mu[r] = belief.exp()"),
 ('R-E15 gbp damping 0.25/0.75', R, "self.messages[ru,rd] = 0.5*self.messages[ru,rd] + 0.5*new[ru,rd]", "self.messages[ru,rd] = 0.25*self.messages[ru,rd] + 0.75*new[ru,rd]"),
 ('R-E21 reverse message on parent domain', R, "self.messages[rd,ru] = Factor.zeros(self.domain.project(rd)) # only", "self.messages[rd,ru] = Factor.zeros(self.domain.project(ru)) # only"),
 ('R-T2 B set (minimal): edge (r,p)', R, "                        B[r].add((p,r))", "                        B[r].add((r,p))"),
 ('F-1 lbp: factor message normalisation dropped', G, "                    mu_f[cl][v] -= mu_f[cl][v].logsumexp()\n", ""),
 ('F-2 lbp: marginals not stored', G, "        self.marginals = self.clique_marginals(mu_n, mu_f, potentials)\n        return self.marginals", "        return self.clique_marginals(mu_n, mu_f, potentials)"),
 ('H-1 local: swap restore order', L, "                    model.potentials = theta0\n                    model.messages = messages0\n", "                    model.messages = messages0\n                    model.potentials = theta0\n"),
]
def run(cmd, cwd=None):
    p=subprocess.run(cmd, cwd=cwd, capture_output=True, text=True)
    return p.returncode, p.stdout+p.stderr
sel=sys.argv[1:]
for name,f,a,b in EDITS:
    if sel and not any(name.startswith(x) for x in sel): continue
    shutil.rmtree(SCR, ignore_errors=True); os.makedirs(SCR)
    shutil.copytree('/repo/src', SCR+'/src'); shutil.copytree('/repo/mechanisms', SCR+'/mechanisms')
    src=open('/repo/'+f).read()
    if src.count(a)<1: print((name,'EDIT DID NOT APPLY'),flush=True); continue
    open(SCR+'/'+f,'w').write(src.replace(a,b,1))
    stop=None
    for t in ('py2local','py2fg','py2rg'):
        rc,out=run(['/venv/bin/python',ROOT+'/tools/'+t+'.py','--repo',SCR,'--out',ROOT+'/lean/PGM/Generated'])
        if rc!=0: stop=(t,out.strip()[-200:]); break
    if stop:
        print((name,'translator stop',stop),flush=True); continue
    rc,out=run(['lake','build','PGM.Properties.C18E'], cwd=ROOT+'/lean')
    if rc==0:
        print((name,'PASSED: C18E and all its imports build'),flush=True)
    else:
        errs=re.findall(r'error: (PGM/[^:]+):(\d+):', out)
        broke=[]
        for ff,l in errs:
            lines=open(ROOT+'/lean/'+ff).read().split('\n')
            i=int(l)-1
            while i>=0 and not re.match(r'\s*(theorem|example|def|lemma)\b', lines[i]): i-=1
            m=re.match(r'\s*(theorem|example|def|lemma)\s+(\S+)?', lines[i]) if i>=0 else None
            nm=(m.group(2) if m and m.group(1)!='example' else 'example')+'@'+os.path.basename(ff)
            if nm not in broke: broke.append(nm)
        print((name,'BROKE',broke[:6]),flush=True)
# restore
for t in ('py2local','py2fg','py2rg'):
    run(['/venv/bin/python',ROOT+'/tools/'+t+'.py','--repo','/repo','--out',ROOT+'/lean/PGM/Generated'])
