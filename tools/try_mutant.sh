#!/bin/bash
# tools/try_mutant.sh <mutant-dir> <Cxx> [more Cxx...]
# Applies <mutant-dir>/patch.diff to a scratch worktree of /repo (never to /repo itself while other
# work is running), confirms the baseline tests still pass and the demo fails, runs the given checks
# against it (VERIF_REPO), prints a summary, and removes the worktree.
set -u
VERIF_DIR="$(cd "$(dirname "$0")/.." && pwd)"
M="$(cd "$1" && pwd)"; shift
WT=$(mktemp -d /tmp/mutrepo.XXXXXX)
git -C /repo worktree add --detach "$WT" HEAD -q || exit 2
trap 'git -C /repo worktree remove --force "$WT" >/dev/null 2>&1; rm -rf "$WT"' EXIT
cd "$WT"
# demonstrations locate the repository relative to their own path (<worktree>/mutants/<m>/demo.py)
mkdir -p "$WT/mutants/m" && cp "$M"/demo.py "$WT/mutants/m/demo.py"
DEMO="$WT/mutants/m/demo.py"
if [ -z "${SKIP_DEMO:-}" ]; then
echo "== demo on clean tree"; PYTHONPATH="$WT/src:$WT" MPLBACKEND=Agg timeout 1800 /venv/bin/python -W ignore "$DEMO" >/dev/null 2>&1; echo "demo(clean) rc=$?"
fi
git apply "$M/patch.diff" || { echo "PATCH DOES NOT APPLY"; exit 2; }
if [ -z "${SKIP_DEMO:-}" ]; then
echo "== baseline tests with the change"; PYTHONPATH="$WT/src:$WT" /venv/bin/python -m pytest -q -p no:cacheprovider --timeout=900 2>&1 | tail -1
echo "== demo with the change"; PYTHONPATH="$WT/src:$WT" MPLBACKEND=Agg timeout 1800 /venv/bin/python -W ignore "$DEMO" 2>&1 | tail -3; echo "demo(mutant) rc=${PIPESTATUS[0]}"
fi
cd "$VERIF_DIR"
for id in "$@"; do
  echo "== check $id against the change"
  out=$(VERIF_REPO="$WT" ./check "$id" --tier quick 2>&1); rc=$?
  echo "[$id rc=$rc] $(echo "$out" | grep -E "VIOLATION|KNOWN|OK |infrastructure" | head -3 | cut -c1-300)"
  echo "$out" | grep -A1 VIOLATION | grep -v "VIOLATION\|^--" | head -2 | cut -c1-300
done
# restore generated files to the real tree
for pass in 1 2; do for t in tools/py2*.py; do /venv/bin/python "$t" --repo /repo --out lean/PGM/Generated >/dev/null 2>&1; done; done
